"""libref.py - an independent reference (the SPEC) for the array*, object*, string* library functions, written from the
function documentation over plain Python lists / dicts / strs (which are shared mutable sequences, shared string-keyed
maps and immutable code-point sequences).  It never imports the implementation.

Reference values: None, bool, int/float, str, list, dict, Tag('fn'), Tag('regex'), Tag('date', us).
A call either returns a value (possibly after mutating its container argument) or raises Fail(v): the call must return
the documented failure value v and leave every argument unchanged.  A result of type Check is a predicate the
implementation's result must satisfy (regexEscape, urlEncode*), after which the result is adopted.
"""
import functools
import json
import math
import re
import urllib.parse


class Tag:
    def __init__(self, kind, us=None):
        self.kind = kind
        self.us = us

    def __repr__(self):
        return f'<{self.kind}>' if self.us is None else f'<date {self.us}>'


class Fail(Exception):
    def __init__(self, value):
        super().__init__(repr(value))
        self.value = value


class Check:
    def __init__(self, pred, what):
        self.pred = pred
        self.what = what


class OutOfSpec(Exception):
    """the call is outside what this reference specifies (callback forms, dates as text): adopt the implementation's result"""


def is_num(v):
    return isinstance(v, (int, float)) and not isinstance(v, bool)


def type_name(v):
    if v is None:
        return 'null'
    if isinstance(v, bool):
        return 'boolean'
    if is_num(v):
        return 'number'
    if isinstance(v, str):
        return 'string'
    if isinstance(v, list):
        return 'array'
    if isinstance(v, dict):
        return 'object'
    if isinstance(v, Tag):
        return {'fn': 'function', 'regex': 'regex', 'date': 'datetime'}[v.kind]
    raise ValueError(v)


def classify(v):
    """for graphdump"""
    if v is None:
        return ('null',)
    if isinstance(v, bool):
        return ('bool', v)
    if isinstance(v, int):
        return ('int', v)
    if isinstance(v, float):
        return ('flt', v)
    if isinstance(v, str):
        return ('str', v)
    if isinstance(v, list):
        return ('arr', v)
    if isinstance(v, dict):
        return ('obj', v)
    if v.kind == 'date':
        return ('date', str(v.us))
    return (v.kind,)


# ---------------------------------------------------------------------------- comparison, text
def compare(a, b, depth=0):
    """the documented total order: null first, same types naturally, different types by type name"""
    if depth > 200:
        raise RecursionError()
    if a is None:
        return 0 if b is None else -1
    if b is None:
        return 1
    ta, tb = type_name(a), type_name(b)
    if ta != tb:
        return -1 if ta < tb else 1
    if ta in ('string', 'boolean', 'number'):
        return -1 if a < b else (0 if a == b else 1)
    if ta == 'datetime':
        return -1 if a.us < b.us else (0 if a.us == b.us else 1)
    if ta == 'array':
        for x, y in zip(a, b):
            c = compare(x, y, depth + 1)
            if c:
                return c
        return -1 if len(a) < len(b) else (0 if len(a) == len(b) else 1)
    if ta == 'object':
        ka, kb = sorted(a), sorted(b)
        for x, y in zip(ka, kb):
            c = compare(x, y)
            if c:
                return c
            c = compare(a[x], b[y], depth + 1)
            if c:
                return c
        return -1 if len(ka) < len(kb) else (0 if len(ka) == len(kb) else 1)
    return 0


def truthy(v):
    if v is None:
        return False
    if isinstance(v, (str, list)):
        return len(v) != 0
    if isinstance(v, bool):
        return v
    if is_num(v):
        return v != 0
    return True


def num_text(x):
    if isinstance(x, int):
        return str(x)
    if math.isnan(x) or math.isinf(x):
        raise OutOfSpec()
    s = repr(x)
    return s[:-2] if s.endswith('.0') else s


def json_text(v, depth=0):
    if depth > 100:
        raise RecursionError()
    if v is None:
        return 'null'
    if isinstance(v, bool):
        return 'true' if v else 'false'
    if is_num(v):
        return num_text(v)
    if isinstance(v, str):
        return json.dumps(v)
    if isinstance(v, list):
        return '[' + ','.join(json_text(x, depth + 1) for x in v) + ']'
    if isinstance(v, dict):
        return '{' + ','.join(json.dumps(k) + ':' + json_text(v[k], depth + 1) for k in sorted(v)) + '}'
    if v.kind == 'fn':
        return '"<function>"'
    if v.kind == 'regex':
        return 'null'
    raise OutOfSpec()


def text(v):
    if isinstance(v, str):
        return v
    if isinstance(v, (list, dict)):
        return json_text(v)
    if isinstance(v, Tag):
        if v.kind == 'fn':
            return '<function>'
        if v.kind == 'regex':
            return '<regex>'
        raise OutOfSpec()
    return json_text(v)


# ---------------------------------------------------------------------------- argument discipline
ANY, INT, STR, ARR, OBJ, FN = 'any', 'int', 'str', 'arr', 'obj', 'fn'
REQ = 'req'
NULLABLE = 'nullable'


def opt(default):
    return ('opt', default)


def take(args, params, fail=None, rest=False):
    """params: [(kind, REQ | NULLABLE | opt(default)[, minimum])]; returns the checked argument values"""
    out = []
    n = len(params)
    if len(args) > n and not rest:
        raise Fail(fail)
    for i, p in enumerate(params):
        kind, mode = p[0], p[1]
        if i >= len(args):
            if kind == ANY and mode == REQ:
                out.append(None)            # a missing untyped argument is null
            elif mode == REQ:
                raise Fail(fail)
            elif mode == NULLABLE:
                out.append(None)
            else:
                out.append(mode[1])
            continue
        v = args[i]
        if kind == ANY:
            out.append(v)
            continue
        if v is None:
            if mode == NULLABLE:
                out.append(None)
                continue
            raise Fail(fail)
        ok = {INT: is_num(v) and not math.isinf(v) and not math.isnan(v) and v == math.floor(v),
              STR: isinstance(v, str), ARR: isinstance(v, list), OBJ: isinstance(v, dict),
              FN: isinstance(v, Tag) and v.kind == 'fn'}[kind]
        if not ok:
            raise Fail(fail)
        if kind == INT:
            if len(p) > 2 and v < p[2]:
                raise Fail(fail)
            v = int(v)
        out.append(v)
    if rest:
        out.append(list(args[n:]))
    return out


REF = {}


def ref(fn):
    REF[fn.__name__] = fn
    return fn


# ---------------------------------------------------------------------------- arrays
@ref
def arrayCopy(args):
    a, = take(args, [(ARR, REQ)])
    return list(a)


@ref
def arrayDelete(args):
    a, i = take(args, [(ARR, REQ), (INT, REQ, 0)])
    if i >= len(a):
        raise Fail(None)
    del a[i]
    return None


@ref
def arrayExtend(args):
    a, b = take(args, [(ARR, REQ), (ARR, REQ)])
    a.extend(list(b))
    return a


@ref
def arrayGet(args):
    a, i = take(args, [(ARR, REQ), (INT, REQ, 0)])
    if i >= len(a):
        raise Fail(None)
    return a[i]


def matches(v, probe):
    if isinstance(probe, Tag) and probe.kind == 'fn':
        return truthy(v)             # the harness's only function value is the identity function
    return compare(v, probe) == 0


@ref
def arrayIndexOf(args):
    a, v, i = take(args, [(ARR, REQ), (ANY, REQ), (INT, opt(0), 0)], -1)
    if i >= len(a):
        raise Fail(-1)
    for ix in range(i, len(a)):
        if matches(a[ix], v):
            return ix
    return -1


@ref
def arrayJoin(args):
    a, sep = take(args, [(ARR, REQ), (STR, REQ)])
    return sep.join(text(x) for x in a)


@ref
def arrayLastIndexOf(args):
    a, v, i = take(args, [(ARR, REQ), (ANY, REQ), (INT, NULLABLE, 0)], -1)
    if i is None:
        i = len(a) - 1
    if i >= len(a):
        raise Fail(-1)
    for ix in range(i, -1, -1):
        if matches(a[ix], v):
            return ix
    return -1


@ref
def arrayLength(args):
    a, = take(args, [(ARR, REQ)], 0)
    return len(a)


@ref
def arrayNew(args):
    return list(args)


@ref
def arrayNewSize(args):
    n, v = take(args, [(INT, opt(0), 0), (ANY, opt(0))])
    if len(args) < 2:
        v = 0
    return [v] * n


@ref
def arrayPop(args):
    a, = take(args, [(ARR, REQ)])
    if not a:
        raise Fail(None)
    return a.pop()


@ref
def arrayPush(args):
    a, vals = take(args, [(ARR, REQ)], rest=True)
    a.extend(vals)
    return a


@ref
def arraySet(args):
    a, i, v = take(args, [(ARR, REQ), (INT, REQ, 0), (ANY, REQ)])
    if i >= len(a):
        raise Fail(None)
    a[i] = v
    return v


@ref
def arrayShift(args):
    a, = take(args, [(ARR, REQ)])
    if not a:
        raise Fail(None)
    return a.pop(0)


@ref
def arraySlice(args):
    a, s, e = take(args, [(ARR, REQ), (INT, opt(0), 0), (INT, NULLABLE, 0)])
    if e is None:
        e = len(a)
    if s > len(a) or e > len(a):
        raise Fail(None)
    return [a[k] for k in range(s, e)]


@ref
def arraySort(args):
    a, fn = take(args, [(ARR, REQ), (FN, NULLABLE)])
    if fn is not None:
        raise OutOfSpec()
    a.sort(key=functools.cmp_to_key(compare))
    return a


# ---------------------------------------------------------------------------- objects
@ref
def objectAssign(args):
    o, o2 = take(args, [(OBJ, REQ), (OBJ, REQ)])
    for k, v in list(o2.items()):
        o[k] = v
    return o


@ref
def objectCopy(args):
    o, = take(args, [(OBJ, REQ)])
    return dict(o)


@ref
def objectDelete(args):
    o, k = take(args, [(OBJ, REQ), (STR, REQ)])
    o.pop(k, None)
    return None


@ref
def objectGet(args):
    dflt = args[2] if len(args) >= 3 else None
    o, k, d = take(args, [(OBJ, REQ), (STR, REQ), (ANY, REQ)], dflt)
    return o[k] if k in o else d


@ref
def objectHas(args):
    o, k = take(args, [(OBJ, REQ), (STR, REQ)], False)
    return k in o


@ref
def objectKeys(args):
    o, = take(args, [(OBJ, REQ)])
    return list(o)


@ref
def objectNew(args):
    o = {}
    for ix in range(0, len(args), 2):
        if not isinstance(args[ix], str):
            raise Fail(None)
        o[args[ix]] = args[ix + 1] if ix + 1 < len(args) else None
    return o


@ref
def objectSet(args):
    o, k, v = take(args, [(OBJ, REQ), (STR, REQ), (ANY, REQ)])
    o[k] = v
    return v


# ---------------------------------------------------------------------------- strings
@ref
def stringCharCodeAt(args):
    s, i = take(args, [(STR, REQ), (INT, REQ, 0)])
    if i >= len(s):
        raise Fail(None)
    return ord(s[i])


@ref
def stringEndsWith(args):
    s, t = take(args, [(STR, REQ), (STR, REQ)])
    return len(t) <= len(s) and s[len(s) - len(t):] == t


@ref
def stringStartsWith(args):
    s, t = take(args, [(STR, REQ), (STR, REQ)])
    return s[:len(t)] == t


@ref
def stringFromCharCode(args):
    for c in args:
        if not is_num(c) or math.isinf(c) or math.isnan(c) or c != math.floor(c) or c < 0:
            raise Fail(None)
    if any(c >= 0x110000 for c in args):
        raise Fail(None)
    return ''.join(chr(int(c)) for c in args)


def occurs_at(s, t, p):
    return p + len(t) <= len(s) and all(s[p + k] == t[k] for k in range(len(t)))


@ref
def stringIndexOf(args):
    s, t, i = take(args, [(STR, REQ), (STR, REQ), (INT, opt(0), 0)], -1)
    if i >= len(s):
        raise Fail(-1)
    for p in range(i, len(s) + 1):
        if occurs_at(s, t, p):
            return p
    return -1


@ref
def stringLastIndexOf(args):
    s, t, i = take(args, [(STR, REQ), (STR, REQ), (INT, NULLABLE, 0)], -1)
    if i is None:
        i = len(s) - 1
    if i >= len(s):
        raise Fail(-1)
    for p in range(max(i, 0), -1, -1):
        if occurs_at(s, t, p):
            return p
    return -1


@ref
def stringLength(args):
    s, = take(args, [(STR, REQ)], 0)
    return len(s)


@ref
def stringLower(args):
    s, = take(args, [(STR, REQ)])
    return s.lower()


@ref
def stringUpper(args):
    s, = take(args, [(STR, REQ)])
    return s.upper()


@ref
def stringNew(args):
    v, = take(args, [(ANY, REQ)])
    return text(v)


@ref
def stringRepeat(args):
    s, n = take(args, [(STR, REQ), (INT, REQ, 0)])
    return ''.join(s for _ in range(n))


@ref
def stringReplace(args):
    s, a, b = take(args, [(STR, REQ), (STR, REQ), (STR, REQ)])
    if a == '':
        return b + ''.join(c + b for c in s)
    out = []
    p = 0
    while p < len(s):
        if occurs_at(s, a, p):
            out.append(b)
            p += len(a)
        else:
            out.append(s[p])
            p += 1
    return ''.join(out)


@ref
def stringSlice(args):
    s, st, e = take(args, [(STR, REQ), (INT, REQ, 0), (INT, NULLABLE, 0)])
    if e is None:
        e = len(s)
    if st > len(s) or e > len(s):
        raise Fail(None)
    return ''.join(s[k] for k in range(st, e))


@ref
def stringSplit(args):
    s, sep = take(args, [(STR, REQ), (STR, REQ)])
    if sep == '':
        raise Fail(None)
    out = []
    cur = []
    p = 0
    while p < len(s):
        if occurs_at(s, sep, p):
            out.append(''.join(cur))
            cur = []
            p += len(sep)
        else:
            cur.append(s[p])
            p += 1
    out.append(''.join(cur))
    return out


@ref
def stringTrim(args):
    s, = take(args, [(STR, REQ)])
    a, b = 0, len(s)
    while a < b and s[a].isspace():
        a += 1
    while b > a and s[b - 1].isspace():
        b -= 1
    return s[a:b]


# ---------------------------------------------------------------------------- regexEscape, URL encoding
def near_misses(s):
    res = {s + 'a', s + s[-1:] if s else 'b', 'a' + s}
    for i in range(len(s)):
        res.add(s[:i] + s[i + 1:])
        res.add(s[:i] + ('x' if s[i] != 'x' else 'y') + s[i + 1:])
        res.add(s[:i] + s[i] + s[i:])
        if s[i].lower() != s[i] or s[i].upper() != s[i]:
            res.add(s[:i] + s[i].swapcase() + s[i + 1:])
    res.discard(s)
    return res


def regex_escape_ok(s, got):
    if not isinstance(got, str):
        return False
    try:
        rx = re.compile(got)
    except re.error:
        return False
    if rx.fullmatch(s) is None:
        return False
    return all(rx.fullmatch(t) is None for t in near_misses(s))


@ref
def regexEscape(args):
    s, = take(args, [(STR, REQ)])
    return Check(lambda got: regex_escape_ok(s, got), 'a pattern matching exactly the argument')


URL_UNRESERVED = set('abcdefghijklmnopqrstuvwxyzABCDEFGHIJKLMNOPQRSTUVWXYZ0123456789-_.~')


def url_ok(s, got, keep):
    if not isinstance(got, str):
        return False
    allowed = URL_UNRESERVED | set(keep) | set('%')
    if any(c not in allowed for c in got):
        return False
    # every % starts a two-hex-digit escape
    if re.fullmatch(r'(?:[^%]|%[0-9A-Fa-f]{2})*', got) is None:
        return False
    # characters that must be escaped are escaped: unreserved and `keep` characters may stay, nothing else
    try:
        return urllib.parse.unquote(got, errors='strict') == s
    except UnicodeDecodeError:
        return False


def has_surrogate(s):
    return any(0xD800 <= ord(c) <= 0xDFFF for c in s)


@ref
def urlEncode(args):
    s, = take(args, [(STR, REQ)])
    if has_surrogate(s):
        raise Fail(None)
    return Check(lambda got: url_ok(s, got, "':/&+"), 'percent-decodes to the argument, only unreserved / reserved-kept characters')


@ref
def urlEncodeComponent(args):
    s, = take(args, [(STR, REQ)])
    if has_surrogate(s):
        raise Fail(None)
    return Check(lambda got: url_ok(s, got, "'"), 'percent-decodes to the argument, only unreserved characters')
