"""C11 - value comparison is a total preorder and every consumer agrees with it.

proof        : coq/Props/C11.v (model = Model/Compare.v; type names REGENERATED from value_type into Gen/TypeNames.v)
direct oracle: a pool of ~300 values of all nine types (hand-picked boundary values + structured random nested values
               and their "Python-equal but differently typed / spelt" variants).  On the implementation:
               value_compare on ALL ordered pairs against an independent reference comparison written from the property
               text (exact rational arithmetic, zoneinfo), the laws themselves (reflexivity, antisymmetry, transitivity over
               ALL triples by bit-set closure, null least, type-name order, equal values interchangeable), the six
               operators and systemCompare through a real script on ALL ordered pairs (= sign tests), arraySort / dataSort
               (stable ordered permutation), mathMin / mathMax (first least / greatest argument), arrayIndexOf.
correspondence: the Coq model evaluated inside Coq on the same pairs / lists = what the implementation returned.
"""
import datetime
import json
import os
import tempfile
import zoneinfo
from fractions import Fraction

from . import core
from .core import cstr, cZ, cN, cnat, cbool, clist, cflt  # noqa: F401

PID = 'C11'
TRUSTED = [
    'Coq 8.16.1 kernel + coqc; vm_compute for the type-name table obligation and for running the model (no native_compute)',
    'Print Assumptions of every C11 theorem: Closed under the global context (no axioms)',
    'tools/translate_compare.py: copies the nine type-name strings and the ladder order of value.py value_type into coq/Gen/TypeNames.v',
    'Model/Compare.v: hand transliteration of value_compare, value_normalize_datetime, the relational operators, _system_compare, '
    '_array_sort, _array_index_of, _math_min/_math_max, _sort_data_fn (validated by the correspondence)',
    'Python semantics assumed by the model: str comparison = code-point order; int/float comparison is exact; list.sort is a stable '
    'sort that only asks cmp(x, y) < 0 (its result is then unique by theorem C11_sort_unique); naive datetimes order by their fields',
    'harness/c11.py reference comparison (fractions.Fraction, zoneinfo) as the direct oracle',
]
EPOCH = datetime.datetime(1, 1, 1)
US = datetime.timedelta(microseconds=1)


# ------------------------------------------------------------------ value specs
def V_int(n):
    return ['int', str(n)]


def V_flt(x):
    return ['float', float(x).hex()]


def V_str(s):
    return ['str', s]


def V_arr(*xs):
    return ['arr', list(xs)]


def V_obj(*kvs):
    return ['obj', [[k, v] for k, v in kvs]]


NULL = ['null']
TRUE = ['bool', True]
FALSE = ['bool', False]


def hand_scalars():
    ints = [0, 1, -1, 2, 3, 10, -10, 255, 2**53 - 1, 2**53, 2**53 + 1, 2**53 + 2, -(2**53), -(2**53) - 1, 10**15, 10**16, 10**21,
            10**30, -10**30, 2**1023, 2**1024, 10**400, -10**400]
    flts = [0.0, -0.0, 1.0, -1.0, 2.0, 0.5, -1.5, 0.1, 1 / 3, 2.0**53, 2.0**53 + 2, -(2.0**53), 1e15, 1e16, 1e21, 1e30, 1e308, -1e308,
            float('inf'), float('-inf'), 5e-324, -5e-324, 2.2250738585072014e-308, 1.7976931348623157e308, 255.0, 10.0, 2.0**1023]
    strs = ['', 'a', 'b', 'ab', 'aa', 'A', 'Z', 'z', ' ', '1', '10', '2', 'aé', 'é', '￿', '\U00010000', '\U0001F600',
            'a\U0001F600', 'a￿', 'null', 'number', 'array', 'object', 'true', '\x00', 'a\x00']
    dates = [['date', 2024, 6, 15], ['date', 2024, 1, 1], ['date', 1970, 1, 1], ['date', 2000, 2, 29], ['date', 2024, 11, 3],
             ['date', 2024, 3, 10]]
    naive = [['naive', 2024, 6, 15, 0, 0, 0, 0], ['naive', 2024, 6, 15, 0, 0, 0, 1], ['naive', 2024, 6, 15, 12, 30, 0, 0],
             ['naive', 2024, 6, 14, 23, 59, 59, 999999], ['naive', 2024, 1, 1, 0, 0, 0, 0], ['naive', 1970, 1, 1, 0, 0, 0, 0],
             ['naive', 2024, 11, 3, 1, 30, 0, 0], ['naive', 2024, 3, 10, 3, 0, 0, 0], ['naive', 2024, 6, 15, 5, 30, 0, 0],
             ['naive', 2024, 6, 15, 7, 0, 0, 0]]
    aware = [['aware', 2024, 6, 15, 7, 0, 0, 0, 0],        # = 2024-06-15T00:00 in Los Angeles
             ['aware', 2024, 6, 15, 0, 0, 0, 0, 0], ['aware', 2024, 6, 15, 5, 30, 0, 0, 330],   # the same instant, two offsets
             ['aware', 2024, 6, 15, 0, 0, 0, 0, -420], ['aware', 2024, 6, 14, 18, 30, 0, 0, 0],  # = 2024-06-15T00:00 in Kolkata
             ['aware', 2024, 6, 15, 12, 30, 0, 0, 120], ['aware', 2024, 1, 1, 8, 0, 0, 0, 0], ['aware', 2024, 1, 1, 0, 0, 0, 0, -480],
             ['aware', 2024, 3, 10, 10, 0, 0, 0, 0], ['aware', 2024, 11, 3, 8, 30, 0, 0, 0], ['aware', 2024, 11, 3, 9, 30, 0, 0, 0],
             ['aware', 1970, 1, 1, 0, 0, 0, 0, 0], ['aware', 2024, 6, 15, 0, 0, 0, 1, 0]]
    other = [['fun', 1], ['fun', 2], ['regex', 'a'], ['regex', 'b+']]
    return ([NULL, TRUE, FALSE] + [V_int(n) for n in ints] + [V_flt(x) for x in flts] + [V_str(s) for s in strs]
            + dates + naive + aware + other)


def hand_containers():
    one, onef, two = V_int(1), V_flt(1.0), V_int(2)
    zero, zerof, nzerof = V_int(0), V_flt(0.0), V_flt(-0.0)
    d, dn = ['date', 2024, 6, 15], ['naive', 2024, 6, 15, 0, 0, 0, 0]
    return [
        V_arr(), V_arr(one), V_arr(onef), V_arr(TRUE), V_arr(zero), V_arr(zerof), V_arr(nzerof), V_arr(FALSE), V_arr(NULL), V_arr(V_arr()),
        V_arr(one, two), V_arr(one, two, V_int(3)), V_arr(two, one), V_arr(one, V_str('a')), V_arr(V_str('a'), one), V_arr(V_str('a')),
        V_arr(V_arr(one), V_arr(two)), V_arr(V_arr(one), V_arr(two), V_arr()), V_arr(V_arr(V_arr(one))), V_arr(V_arr(V_arr(onef))),
        V_arr(V_arr(V_arr(TRUE))), V_arr(V_arr(V_arr())), V_arr(d), V_arr(dn), V_arr(V_obj()), V_arr(V_obj(('a', V_arr(one)))),
        V_arr(NULL, NULL), V_arr(['fun', 1]), V_arr(['regex', 'a']), V_arr(V_int(2**53)), V_arr(V_flt(2.0**53)), V_arr(V_int(2**53 + 1)),
        V_obj(), V_obj(('a', one)), V_obj(('a', onef)), V_obj(('a', TRUE)), V_obj(('a', one), ('b', two)), V_obj(('b', two), ('a', one)),
        V_obj(('a', one), ('b', zero)), V_obj(('a', TRUE), ('b', zero)), V_obj(('b', zero)), V_obj(('a', NULL)), V_obj(('a', V_arr(one, two))),
        V_obj(('a', V_obj(('b', V_obj(('c', one)))))), V_obj(('a', V_obj(('b', V_obj(('c', onef)))))),
        V_obj(('a', V_obj(('b', V_obj(('c', TRUE)))))), V_obj(('k', V_arr(V_arr(zero)))), V_obj(('k', V_arr(V_arr(FALSE)))),
        V_obj(('k', V_arr(V_arr(zerof)))), V_obj(('\U0001F600', one)), V_obj(('￿', one)), V_obj(('', one)), V_obj(('A', one)),
        V_obj(('a', d)), V_obj(('a', dn)), V_obj(('ab', one)), V_obj(('a', one), ('ab', one)), V_obj(('b', one), ('a', one), ('c', one)),
    ]


KEYS = ['a', 'b', 'c', 'k', 'ab', 'A', '', 'é', '\U0001F600']
# leaves that Python's == identifies although BareScript distinguishes or must identify them
CLASSES = [
    [TRUE, V_int(1), V_flt(1.0)],
    [FALSE, V_int(0), V_flt(0.0), V_flt(-0.0)],
    [V_int(2), V_flt(2.0)],
    [V_int(2**53), V_flt(2.0**53)],
    [['date', 2024, 6, 15], ['naive', 2024, 6, 15, 0, 0, 0, 0]],
    [['aware', 2024, 6, 15, 0, 0, 0, 0, 0], ['aware', 2024, 6, 15, 5, 30, 0, 0, 330]],
    [['fun', 1], ['fun', 2]],
    [V_str('a'), V_str('b')],
    [NULL, FALSE, V_int(0), V_str('')],
]


def rand_value(r, depth, scalars):
    c = r.random()
    if depth == 0 or c < 0.35:
        if r.random() < 0.5:
            return r.choice(r.choice(CLASSES))
        return r.choice(scalars)
    if c < 0.70:
        return ['arr', [rand_value(r, depth - 1, scalars) for _ in range(r.choice([0, 1, 1, 2, 2, 3]))]]
    ks = r.sample(KEYS, r.choice([0, 1, 1, 2, 2, 3]))
    return ['obj', [[k, rand_value(r, depth - 1, scalars)] for k in ks]]


def variant(r, v, scalars):
    """a value of the same shape with one small change: a leaf replaced by a member of its ==-class (or a neighbour),
    an element appended / dropped, object items re-ordered"""
    k = v[0]
    if k == 'arr':
        xs = list(v[1])
        c = r.random()
        if xs and c < 0.6:
            i = r.randrange(len(xs))
            xs[i] = variant(r, xs[i], scalars)
        elif c < 0.8:
            xs.append(r.choice(scalars))
        elif xs:
            xs.pop()
        return ['arr', xs]
    if k == 'obj':
        kvs = [list(kv) for kv in v[1]]
        c = r.random()
        if kvs and c < 0.6:
            i = r.randrange(len(kvs))
            kvs[i][1] = variant(r, kvs[i][1], scalars)
        elif kvs and c < 0.8:
            r.shuffle(kvs)
        elif c < 0.9:
            free = [x for x in KEYS if x not in [kv[0] for kv in kvs]]
            if free:
                kvs.append([r.choice(free), r.choice(scalars)])
        elif kvs:
            kvs.pop()
        return ['obj', kvs]
    for cl in CLASSES:
        if v in cl and r.random() < 0.8:
            return r.choice([x for x in cl if x != v])
    return r.choice(scalars)


def make_pool(r, n_random):
    scal = hand_scalars()
    pool = scal + hand_containers()
    for _ in range(n_random):
        v = rand_value(r, r.choice([1, 2, 3, 3]), scal)
        pool.append(v)
        pool.append(variant(r, v, scal))
    return pool


def depth(v):
    if v[0] == 'arr':
        return 1 + max([depth(x) for x in v[1]] + [0])
    if v[0] == 'obj':
        return 1 + max([depth(x) for _, x in v[1]] + [0])
    return 0


# ------------------------------------------------------------------ the reference (written from the property text)
TYPE_NAME = {'null': 'null', 'bool': 'boolean', 'int': 'number', 'float': 'number', 'str': 'string', 'date': 'datetime', 'naive': 'datetime',
             'aware': 'datetime', 'arr': 'array', 'obj': 'object', 'fun': 'function', 'regex': 'regex'}


def sign(x, y):
    return -1 if x < y else (0 if x == y else 1)


def num_key(v):
    """(class, exact value): -inf < finite < +inf"""
    if v[0] == 'int':
        return (0, Fraction(int(v[1])))
    x = float.fromhex(v[1])
    if x != x:
        raise ValueError('NaN is outside the property')
    if x in (float('inf'), float('-inf')):
        return (1 if x > 0 else -1, Fraction(0))
    return (0, Fraction(x))


def wall_us(v, zone):
    """microseconds of the local wall clock (since 0001-01-01) a date value is compared by"""
    if v[0] == 'date':
        return (datetime.datetime(v[1], v[2], v[3]) - EPOCH) // US
    if v[0] == 'naive':
        return (datetime.datetime(*v[1:8]) - EPOCH) // US
    utc = utc_us(v)
    return utc + zone_offset_us(utc, zone)


def utc_us(v):
    return (datetime.datetime(*v[1:8]) - EPOCH) // US - v[8] * 60 * 1000000


def zone_offset_us(utc, zone):
    inst = (EPOCH + utc * US).replace(tzinfo=datetime.timezone.utc)
    return inst.astimezone(zone).utcoffset() // US


def ref_compare(a, b, zone):
    ka, kb = a[0], b[0]
    if ka == 'null' or kb == 'null':
        return sign(ka != 'null', kb != 'null')
    ta, tb = TYPE_NAME[ka], TYPE_NAME[kb]
    if ta != tb:
        return sign([ord(c) for c in ta], [ord(c) for c in tb])
    if ta == 'string':
        return sign([ord(c) for c in a[1]], [ord(c) for c in b[1]])
    if ta == 'boolean':
        return sign(int(a[1]), int(b[1]))
    if ta == 'number':
        return sign(num_key(a), num_key(b))
    if ta == 'datetime':
        return sign(wall_us(a, zone), wall_us(b, zone))
    if ta == 'array':
        for x, y in zip(a[1], b[1]):
            c = ref_compare(x, y, zone)
            if c:
                return c
        return sign(len(a[1]), len(b[1]))
    if ta == 'object':
        ia = sorted(a[1], key=lambda kv: [ord(c) for c in kv[0]])
        ib = sorted(b[1], key=lambda kv: [ord(c) for c in kv[0]])
        for (k1, v1), (k2, v2) in zip(ia, ib):
            c = sign([ord(c) for c in k1], [ord(c) for c in k2])
            if c:
                return c
            c = ref_compare(v1, v2, zone)
            if c:
                return c
        return sign(len(ia), len(ib))
    return 0    # two functions, two regexes: same type name


def stable_sort(n, cmp):
    """reference stable sort of positions 0..n-1 (binary-free insertion sort: only `cmp(x, y) > 0` moves x behind y)"""
    out = []
    for p in range(n):
        k = len(out)
        while k > 0 and cmp(out[k - 1], p) > 0:
            k -= 1
        out.insert(k, p)
    return out


# ------------------------------------------------------------------ Coq encoding
def cv_coq(v):
    k = v[0]
    if k == 'null':
        return 'CNull'
    if k == 'bool':
        return f'(CBool {cbool(v[1])})'
    if k == 'int':
        return f'(CNum (NInt {cZ(int(v[1]))}))'
    if k == 'float':
        return f'(CNum (NFlt {cflt(float.fromhex(v[1]))}))'
    if k == 'str':
        return f'(CStr {cstr(v[1])})'
    if k == 'date':
        return f'(CDate (HDate {cZ(datetime.date(v[1], v[2], v[3]).toordinal() - 1)}))'
    if k == 'naive':
        return f'(CDate (HNaive {cZ((datetime.datetime(*v[1:8]) - EPOCH) // US)}))'
    if k == 'aware':
        return f'(CDate (HAware {cZ(utc_us(v))}))'
    if k == 'arr':
        return f'(CArr {clist([cv_coq(x) for x in v[1]])})'
    if k == 'obj':
        return f'(CObj {clist(["(" + cstr(kk) + ", " + cv_coq(x) + ")" for kk, x in v[1]])})'
    if k == 'fun':
        return f'(CFun {cN(v[1])})'
    if k == 'regex':
        return f'(CRegex {cN(sum(ord(c) for c in v[1]))})'
    raise ValueError(k)


def aware_instants(v, acc):
    if v[0] == 'aware':
        acc.add(utc_us(v))
    elif v[0] == 'arr':
        for x in v[1]:
            aware_instants(x, acc)
    elif v[0] == 'obj':
        for _, x in v[1]:
            aware_instants(x, acc)
    return acc


def prelude(pool, zone):
    inst = set()
    for v in pool:
        aware_instants(v, inst)
    tbl = clist([f'({cZ(t)}, {cZ(zone_offset_us(t, zone))})' for t in sorted(inst)])
    lines = ['Local Open Scope Z_scope.', f'Definition tzf : Z -> Z := tz_table {tbl}.']
    for i, v in enumerate(pool):
        lines.append(f'Definition p{i} : cv := {cv_coq(v)}.')
    lines.append('Definition pool : list cv := ' + clist([f'p{i}' for i in range(len(pool))]) + '.')
    lines.append('''Definition b2n (b : bool) (w : N) : N := if b then w else 0%N.
Definition code (a b : cv) : N :=
  (b2n (eval_relop tzf REq a b) 1 + b2n (eval_relop tzf RNe a b) 2 + b2n (eval_relop tzf RLt a b) 4 + b2n (eval_relop tzf RLe a b) 8
   + b2n (eval_relop tzf RGt a b) 16 + b2n (eval_relop tzf RGe a b) 32 + 64 * Z.to_N (system_compare tzf a b + 1))%N.
Definition cmp_code (a b : cv) : N := match compare tzf a b with Lt => 0%N | Eq => 1%N | Gt => 2%N end.
Definition row_check (a : cv) (exp_cmp : list N) (sel : list cv) (exp_ops : list N) : bool :=
  list_eqb N.eqb (map (cmp_code a) pool) exp_cmp && list_eqb N.eqb (map (code a) sel) exp_ops.
Definition rows_eqb (a b : list (list (str * cv))) : bool := list_eqb cv_eqb (map CObj a) (map CObj b).''')
    return '\n'.join(lines)


# ------------------------------------------------------------------ the check
def expected_code(c):
    return (1 if c == 0 else 0) + (2 if c != 0 else 0) + (4 if c < 0 else 0) + (8 if c <= 0 else 0) + (16 if c > 0 else 0) \
        + (32 if c >= 0 else 0) + 64 * (c + 1)


def run_zone(chk, tier, tzname, pool, r, model_ok, full, stats):
    """everything for one local time zone; full=False: only the compare matrix (value_compare, reference, laws)"""
    zone = zoneinfo.ZoneInfo(tzname)
    n = len(pool)
    tmp = tempfile.NamedTemporaryFile('w', suffix='.json', prefix='c11pool_', delete=False, encoding='utf-8')
    json.dump(pool, tmp)
    tmp.close()
    env = core.impl_env({'TZ': tzname})
    try:
        jobs = [{'pool': tmp.name, 'kind': 'matrix', 'rows': list(range(s, min(n, s + 20)))} for s in range(0, n, 20)]
        if full:
            jobs += [{'pool': tmp.name, 'kind': 'ops', 'rows': list(range(s, min(n, s + 10)))} for s in range(0, n, 10)]
        n_matrix = len(jobs)
        cons = []
        if full:
            cons = consumer_jobs(r, tier, pool, tmp.name)
        res = core.run_impl('compare_pool', jobs + cons, env=env, shards=core.NPROC)
    finally:
        os.unlink(tmp.name)

    M = [None] * n
    OPS = [None] * n
    for job, out in zip(jobs, res[:n_matrix]):
        if 'exc' in out:
            chk.oracle_fail.append({'class': 'worker-exception', 'input': {'tz': tzname, 'job': job['kind'], 'rows': job['rows']}, 'got': out})
            continue
        for i, row in out['rows'].items():
            if job['kind'] == 'matrix':
                M[int(i)] = ['<=>!?'.index(ch) - 1 if ch in '<=>' else None for ch in row]
            else:
                OPS[int(i)] = row
    if any(m is None for m in M):
        return None

    def inp(*idx):
        return {'tz': tzname, 'values': [pool[i] for i in idx]}

    # --- (1) value_compare against the reference, on all ordered pairs
    R = [[ref_compare(pool[i], pool[j], zone) for j in range(n)] for i in range(n)]
    n_bad = 0
    for i in range(n):
        for j in range(n):
            stats['pairs'] += 1
            if M[i][j] is None:
                chk.oracle_fail.append({'class': 'compare-raised-or-bad-result', 'input': inp(i, j)})
            elif M[i][j] != R[i][j]:
                n_bad += 1
                if n_bad <= 10:
                    chk.oracle_fail.append({'class': 'compare-differs-from-reference', 'input': inp(i, j), 'expected': R[i][j], 'got': M[i][j]})
            stats['result'][R[i][j]] = stats['result'].get(R[i][j], 0) + 1
    if n_bad > 10:
        chk.oracle_fail.append({'class': 'compare-differs-from-reference', 'more': n_bad - 10, 'input': {'tz': tzname}})
    if any(x is None for row in M for x in row):
        return None

    # --- (2) the laws themselves on the implementation's results
    for i in range(n):
        if M[i][i] != 0:
            chk.oracle_fail.append({'class': 'not-reflexive', 'input': inp(i), 'got': M[i][i]})
    n_anti = 0
    for i in range(n):
        for j in range(i + 1, n):
            if M[i][j] != -M[j][i]:
                n_anti += 1
                if n_anti <= 5:
                    chk.oracle_fail.append({'class': 'not-antisymmetric', 'input': inp(i, j), 'got': [M[i][j], M[j][i]]})
    # transitivity over ALL triples: LE-closure and strictness by bit sets
    le = [sum(1 << j for j in range(n) if M[i][j] <= 0) for i in range(n)]
    lt = [sum(1 << j for j in range(n) if M[i][j] < 0) for i in range(n)]
    n_tr = 0
    for a in range(n):
        reach_le = reach_lt = 0
        for b in range(n):
            if M[a][b] <= 0:
                reach_le |= le[b]
                reach_lt |= lt[b]
                if M[a][b] < 0:
                    reach_lt |= le[b]
        stats['triples'] += n * n
        bad_le = reach_le & ~le[a]
        bad_lt = reach_lt & ~lt[a]
        if (bad_le or bad_lt) and n_tr < 5:
            n_tr += 1
            bad = bad_le or bad_lt
            c = bad.bit_length() - 1
            b = next(b for b in range(n) if M[a][b] <= 0 and M[b][c] <= 0 and (bad_le or M[a][b] < 0 or M[b][c] < 0))
            chk.oracle_fail.append({'class': 'not-transitive', 'input': inp(a, b, c), 'got': {'ab': M[a][b], 'bc': M[b][c], 'ac': M[a][c]}})
    # null least; different types by type name; equal values interchangeable (int/float spelling, date/datetime, ...)
    for i in range(n):
        for j in range(n):
            a, b = pool[i], pool[j]
            if a[0] == 'null' and M[i][j] != (0 if b[0] == 'null' else -1):
                chk.oracle_fail.append({'class': 'null-not-least', 'input': inp(i, j), 'got': M[i][j]})
            ta, tb = TYPE_NAME[a[0]], TYPE_NAME[b[0]]
            stats['type_pairs'][ta + '/' + tb] = stats['type_pairs'].get(ta + '/' + tb, 0) + 1
            if 'null' not in (ta, tb) and ta != tb and M[i][j] != sign(ta, tb):
                chk.oracle_fail.append({'class': 'cross-type-not-by-type-name', 'input': inp(i, j), 'expected': sign(ta, tb), 'got': M[i][j]})
    n_eq = 0
    for i in range(n):
        for j in range(i + 1, n):
            if M[i][j] == 0:
                stats['equal_pairs'] += 1
                if pool[i] != pool[j]:
                    stats['equal_distinct_pairs'] += 1
                if (M[i] != M[j] or any(M[k][i] != M[k][j] for k in range(n))) and n_eq < 5:
                    n_eq += 1
                    k = next(k for k in range(n) if M[i][k] != M[j][k] or M[k][i] != M[k][j])
                    chk.oracle_fail.append({'class': 'equal-values-not-interchangeable', 'input': inp(i, j, k),
                                            'got': {'ab': 0, 'ac': M[i][k], 'bc': M[j][k], 'ca': M[k][i], 'cb': M[k][j]}})
    if not full:
        return M

    # --- (3) the six operators and systemCompare through a real script = sign tests of value_compare
    n_ops = 0
    for i in range(n):
        if OPS[i] is None:
            continue
        for j in range(n):
            stats['operator_pairs'] += 1
            if OPS[i][j] != expected_code(M[i][j]):
                n_ops += 1
                if n_ops <= 10:
                    got = OPS[i][j]
                    dec = {'==': bool(got & 1), '!=': bool(got & 2), '<': bool(got & 4), '<=': bool(got & 8), '>': bool(got & 16),
                           '>=': bool(got & 32), 'systemCompare': (got >> 6) - 1} if got >= 0 else 'exception or non-boolean result'
                    chk.oracle_fail.append({'class': 'operator-is-not-the-sign-test', 'input': inp(i, j),
                                            'source': 'return arrayNew(a == b, a != b, a < b, a <= b, a > b, a >= b, systemCompare(a, b))',
                                            'value_compare': M[i][j], 'got': dec})

    # --- (4) consumers
    def cmpM(idx):
        return lambda p, q: M[idx[p]][idx[q]]

    for job, out in zip(cons, res[n_matrix:]):
        kind = job['kind']
        stats['consumers'][kind] = stats['consumers'].get(kind, 0) + 1
        if 'exc' in out or 'bad' in out:
            chk.oracle_fail.append({'class': kind + '-raised-or-bad-result', 'input': consumer_input(job, pool, tzname), 'got': out})
            continue
        if kind == 'sort':
            idx = job['idx']
            exp = stable_sort(len(idx), cmpM(idx))
            if out['perm'] != exp or not out.get('same_object'):
                chk.oracle_fail.append({'class': 'arraySort-not-the-stable-ordered-permutation', 'input': consumer_input(job, pool, tzname),
                                        'expected': exp, 'got': out})
        elif kind == 'datasort':
            exp = stable_sort(len(job['rows']), lambda p, q: row_cmp(job, M, p, q, pool))
            if out['perm'] != exp:
                chk.oracle_fail.append({'class': 'dataSort-not-the-stable-ordered-permutation', 'input': consumer_input(job, pool, tzname),
                                        'expected': exp, 'got': out})
        elif kind == 'minmax':
            idx = job['idx']
            lo = next(p for p in range(len(idx)) if all(M[idx[p]][idx[q]] <= 0 for q in range(len(idx))))
            hi = next(p for p in range(len(idx)) if all(M[idx[p]][idx[q]] >= 0 for q in range(len(idx))))
            if out['min'] != lo or out['max'] != hi:
                chk.oracle_fail.append({'class': 'min-max-not-the-first-least-greatest-argument', 'input': consumer_input(job, pool, tzname),
                                        'expected': {'min': lo, 'max': hi}, 'got': out})
        elif kind == 'indexof':
            idx, v, st = job['idx'], job['value'], job.get('start', 0)
            exp = next((p for p in range(st, len(idx)) if M[idx[p]][v] == 0), -1)
            if out['index'] != exp:
                chk.oracle_fail.append({'class': 'arrayIndexOf-not-the-first-equal-element', 'input': consumer_input(job, pool, tzname),
                                        'expected': exp, 'got': out['index']})

    # --- (5) correspondence with the Coq model
    if model_ok:
        pre = prelude(pool, zone)
        terms, what = [], []
        for i in range(n):
            if OPS[i] is None:
                continue
            # compare on every column; the operator codes (7 more comparisons each) on every 8th column, offset by the row
            sel = [j for j in range(n) if (j - i) % 8 == 0]
            terms.append(f'row_check p{i} {clist([cN(c + 1) for c in M[i]])} {clist([f"p{j}" for j in sel])} '
                         f'{clist([cN(max(OPS[i][j], 0)) for j in sel])}')
            what.append(('row', i))
        for job, out in zip(cons, res[n_matrix:]):
            if 'exc' in out or 'bad' in out:
                continue
            kind = job['kind']
            if kind == 'sort':
                idx = job['idx']
                terms.append(f'list_eqb cv_eqb (array_sort tzf {clist([f"p{k}" for k in idx])}) {clist([f"p{idx[p]}" for p in out["perm"] if p >= 0])}')
            elif kind == 'datasort':
                rows = ['[' + '; '.join(f'({cstr(f)}, p{k})' for f, k in zip(job['fields'], rw) if k is not None) + ']' for rw in job['rows']]
                sorts = clist([f'({cstr(s[0])}, {cbool(len(s) > 1 and s[1])})' for s in job['sorts']])
                terms.append(f'rows_eqb (data_sort tzf {clist(rows)} {sorts}) {clist([rows[p] for p in out["perm"] if p >= 0])}')
            elif kind == 'minmax':
                idx = job['idx']
                lst = clist([f'p{k}' for k in idx])
                terms.append(f'cv_eqb (math_min tzf {lst}) p{idx[out["min"]]} && cv_eqb (math_max tzf {lst}) p{idx[out["max"]]}')
            elif kind == 'indexof':
                terms.append(f'option_eqb Z.eqb (array_index_of tzf {clist([f"p{k}" for k in job["idx"]])} p{job["value"]} '
                             f'{cnat(job.get("start", 0))}) (Some {cZ(out["index"])})')
            what.append((kind, job))
        bad, errors = core.coq_bools('c11_' + tzname.replace('/', '_'), 'Model.Base Model.Num Model.Compare', terms,
                                      shard=max(20, -(-len(terms) // core.NPROC)), prelude=pre)
        stats['correspondence_terms'] += len(terms)
        for k, log in errors:
            chk.corr_fail.append({'class': 'case-file-did-not-evaluate', 'shard': k, 'log': log[-800:]})
        for b in bad[:10]:
            kind, obj = what[b]
            if kind == 'row':
                shown = core.coq_show('c11', 'Model.Base Model.Num Model.Compare', f'(map (cmp_code p{obj}) pool, map (code p{obj}) pool)', prelude=pre)
                chk.corr_fail.append({'class': 'model-differs', 'tz': tzname, 'left': pool[obj], 'impl_compare_row': M[obj], 'model': shown[-3000:]})
            else:
                chk.corr_fail.append({'class': 'model-differs', 'tz': tzname, 'consumer': kind, 'input': consumer_input(obj, pool, tzname),
                                      'term': terms[b][:1500]})
        if len(bad) > 10:
            chk.corr_fail.append({'class': 'model-differs', 'more': len(bad) - 10})
    return M


def row_cmp(job, M, p, q, pool):
    null_ix = next(i for i, v in enumerate(pool) if v[0] == 'null')
    for s in job['sorts']:
        f = job['fields'].index(s[0]) if s[0] in job['fields'] else None
        v1 = job['rows'][p][f] if f is not None and job['rows'][p][f] is not None else null_ix
        v2 = job['rows'][q][f] if f is not None and job['rows'][q][f] is not None else null_ix
        c = M[v2][v1] if len(s) > 1 and s[1] else M[v1][v2]
        if c:
            return c
    return 0


def consumer_input(job, pool, tzname):
    d = {'tz': tzname, 'kind': job['kind']}
    if job['kind'] == 'datasort':
        d['rows'] = [{f: pool[k] for f, k in zip(job['fields'], rw) if k is not None} for rw in job['rows']]
        d['sorts'] = job['sorts']
    else:
        d['values'] = [pool[k] for k in job['idx']]
        if job['kind'] == 'indexof':
            d['value'] = pool[job['value']]
            d['start'] = job.get('start')
    return d


def consumer_jobs(r, tier, pool, path):
    n = len(pool)
    big = tier == 'thorough'
    jobs = []
    by_type = {}
    for i, v in enumerate(pool):
        by_type.setdefault(TYPE_NAME[v[0]], []).append(i)

    def pick_list(lo, hi):
        m = r.randint(lo, hi)
        c = r.random()
        if c < 0.35:      # one type: many ties and near-ties
            src = by_type[r.choice(sorted(by_type))]
        elif c < 0.6:     # a few values repeated
            src = r.sample(range(n), min(n, 4))
        else:
            src = range(n)
        return [r.choice(src) for _ in range(m)]

    for _ in range(3000 if big else 400):
        jobs.append({'pool': path, 'kind': 'sort', 'idx': pick_list(0, 12)})
    fields = ['x', 'y', 'z']
    for _ in range(2000 if big else 250):
        few = r.sample(range(n), 5)
        rows = [[(r.choice(few) if r.random() < 0.85 else None) for _ in fields] for _ in range(r.randint(0, 9))]
        sorts = []
        for _ in range(r.randint(0, 3)):
            f = r.choice(fields + ['missing'])
            c = r.random()
            sorts.append([f] if c < 0.3 else [f, c < 0.65])
        jobs.append({'pool': path, 'kind': 'datasort', 'rows': rows, 'fields': fields, 'sorts': sorts})
    for _ in range(3000 if big else 400):
        jobs.append({'pool': path, 'kind': 'minmax', 'idx': pick_list(1, 8)})
    nonfun = [i for i, v in enumerate(pool) if v[0] != 'fun']
    for _ in range(3000 if big else 400):
        idx = pick_list(0, 10)
        v = r.choice(idx) if idx and r.random() < 0.6 else r.choice(nonfun)
        if pool[v][0] == 'fun':
            v = r.choice(nonfun)
        if r.random() < 0.5 and r.random() < 0.9:
            # same value in another spelling / another object
            same = [k for k in nonfun if pool[k] != pool[v] and TYPE_NAME[pool[k][0]] == TYPE_NAME[pool[v][0]]]
            if same and r.random() < 0.5:
                v = r.choice(same)
        job = {'pool': path, 'kind': 'indexof', 'idx': idx, 'value': v}
        if idx and r.random() < 0.5:
            job['start'] = r.randrange(len(idx))
        jobs.append(job)
    # arrays made ONLY of booleans and numbers (Python itself would order them as numbers: a sort must not), appended with a generator of their
    # own so that the stream above is unchanged
    r2 = core.rng('c11-boolnum')
    mix = by_type.get('boolean', []) + by_type.get('number', [])
    if by_type.get('boolean') and by_type.get('number'):
        for _ in range(400 if big else 60):
            idx = [r2.choice(by_type['boolean']) if r2.random() < 0.4 else r2.choice(mix) for _ in range(r2.randint(2, 9))]
            jobs.append({'pool': path, 'kind': 'sort', 'idx': idx})
            jobs.append({'pool': path, 'kind': 'minmax', 'idx': idx[:8]})
    return jobs


def run(tier):
    chk = core.Check(PID, tier)
    chk.assumptions = ['NaN is outside the property (model: no_nan; pool: no NaN)',
                       'aware datetimes are compared by the local wall clock they normalise to (value_normalize_datetime); the model takes '
                       'the zone offset function as a parameter and the theorems hold for every such function',
                       'Python semantics of str/int/float/datetime comparison and of list.sort (stable, consults only cmp<0) as listed in trusted_base']
    proof_ok = chk.prove('Props/C11.v')
    model_ok = proof_ok or chk.model_ready(['Model/Compare.vo'])

    r = core.rng('c11')
    pool = make_pool(r, 70 if tier == 'quick' else 110)
    stats = {'pairs': 0, 'triples': 0, 'operator_pairs': 0, 'result': {}, 'type_pairs': {}, 'equal_pairs': 0, 'equal_distinct_pairs': 0,
             'consumers': {}, 'correspondence_terms': 0}
    zones = [('America/Los_Angeles', True), ('Asia/Kolkata', False)]
    if tier == 'thorough':
        zones = [('America/Los_Angeles', True), ('Asia/Kolkata', True), ('UTC', False), ('Australia/Lord_Howe', True), ('Europe/London', False)]
    for tzname, full in zones:
        run_zone(chk, tier, tzname, pool, r, model_ok, full, stats)

    kinds = {}
    for v in pool:
        kinds[TYPE_NAME[v[0]]] = kinds.get(TYPE_NAME[v[0]], 0) + 1
    chk.coverage = {
        'evaluations': stats['pairs'] + stats['operator_pairs'] + sum(stats['consumers'].values()),
        'distinct_nontrivial': stats['equal_distinct_pairs'],
        'rule': 'pool = hand-picked boundary values of all nine types + structured random nested values (depth <= 3) each with a variant '
                '(leaf replaced inside its Python-==-class, element added/dropped, keys re-ordered); ALL ordered pairs for value_compare and '
                'for the six operators/systemCompare via a script, ALL triples for transitivity, random lists for sort/min/max/indexOf/dataSort; '
                'non-trivial = pairs of structurally different values that compare equal',
        'exhaustive': True,
        'exhaustive_part': f'all {len(pool)}^2 ordered pairs and all {len(pool)}^3 triples of the pool, per time zone',
        'pool_size': len(pool), 'pool_types': kinds, 'pool_max_depth': max(depth(v) for v in pool),
        'time_zones': [z for z, _ in zones],
        'distribution': {'compare_result': {str(k): v for k, v in stats['result'].items()}, 'consumers': stats['consumers'],
                         'type_pairs_min': min(stats['type_pairs'].values()) if stats['type_pairs'] else 0,
                         'type_pairs_seen': len(stats['type_pairs'])},
        'pairs': stats['pairs'], 'triples': stats['triples'], 'operator_pairs': stats['operator_pairs'],
        'equal_pairs': stats['equal_pairs'],
        'correspondence_cases': stats['correspondence_terms'],
        'samples': [pool[i] for i in (0, 40, 120, len(pool) - 3, len(pool) - 1)],
    }
    return chk.finish(TRUSTED)


def replay(data):
    """re-run the failing inputs of a replay file against the implementation and print what it returns now"""
    for case in data.get('failing_inputs', [])[:20]:
        inp = case.get('input', {})
        vals = inp.get('values')
        if not vals:
            print(json.dumps(case, ensure_ascii=True)[:600])
            continue
        tzname = inp.get('tz', 'UTC')
        zone = zoneinfo.ZoneInfo(tzname)
        tmp = tempfile.NamedTemporaryFile('w', suffix='.json', delete=False, encoding='utf-8')
        json.dump(vals, tmp)
        tmp.close()
        try:
            out = core.run_impl('compare_pool', [{'pool': tmp.name, 'kind': 'matrix', 'rows': list(range(len(vals)))},
                                                 {'pool': tmp.name, 'kind': 'ops', 'rows': list(range(len(vals)))}],
                                env=core.impl_env({'TZ': tzname}), shards=1)
        finally:
            os.unlink(tmp.name)
        ref = [[ref_compare(a, b, zone) for b in vals] for a in vals]
        print(json.dumps({'class': case.get('class'), 'values': vals, 'tz': tzname, 'value_compare': out[0], 'operators': out[1],
                          'reference': ref}, ensure_ascii=True)[:3000])
    return 0
