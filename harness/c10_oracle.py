"""c10_oracle.py - DIRECT (metamorphic) oracle for C10 "source layout does not change the parsed program".

Independent of any Coq model: it re-implements nothing of parse_script except the *layout* notions of the property text
(physical line, comment/blank line, continuation, logical line) and a small statement tokenizer that knows where
"a space is allowed".  Every variant is a layout rewrite of a base program that is model-preserving BY THE PROPERTY TEXT:

  a. eol       LF / CRLF / mixed per line, final newline present or absent
  b. chunks    the text as a list of strings cut only at line boundaries (exhaustive <= 6 cuts for short programs),
               chunks with / without their trailing newline, empty chunks, one chunk per line
  c. comments  comment / blank lines inserted with p = 0.3 before every physical line (also inside a continued line),
               at the very start and at the end
  d. indent / trailing-ws   indentation and trailing whitespace of every physical line (also after a continuation backslash)
  e. break1 / breakN / break-all   continuation breaks at inter-token gaps (a break == one space at that gap)
  f. ws1 / ws-all   whitespace changes at the same gaps without continuation (widen, single space/tab, remove where optional)
  combo        random combinations of all of the above

Every token-level rewrite is self-checked: the variant's logical lines are re-assembled by this module's own layout rules
and re-tokenized; a variant whose token sequence differs from the base's is a generator bug and is dropped (counted in
stats['selfcheck_dropped'], expected 0).

QUARANTINED FINDING (genuine C10 defect of the implementation, found by this oracle): a bare `return` followed by two or
more trailing whitespace characters is a syntax error (`_R_SCRIPT_RETURN`'s optional group captures the blanks as the
expression).  So that this one defect does not mask everything else, trailing whitespace after a bare un-continued `return`
is limited to <= 1 character in all families and the defect is exercised by the dedicated family tag
'bare-return-trailing-ws' (fail class 'variant-rejected').
"""
import glob
import itertools
import json
import os
import re

from . import core
from . import scriptgen

CHUNK_MARK = ' \u23ceCHUNK\u23ce '
QUARANTINE_BARE_RETURN_WS = True

INDENTS = ['', '  ', '    ', '       ', '\t', '\t  ']
TRAILS = ['', ' ', '   ', '\t', ' \t']
GAPWS = [' ', '  ', '\t', '   ', ' \t ']
COMMENTS = ['#', '# text', '   # indented', '\t#x', '# ends with backslash \\', '#\\', '  # x = 1 \\  ',
            "# it's \"quoted\" : [x]", '  #  if x:', '# endif', '#\u00a0nbsp']
BLANKS = ['', '', '   ', '\t', ' \t ', '\u00a0', '\u2003 ', '\x0c']

SINGLE_WORD = ('endif', 'endfor', 'endwhile', 'endfunction', 'break', 'continue')
STMT_KINDS = ('assign', 'expr', 'function', 'label', 'jump', 'jumpif', 'return', 'include', 'if', 'elif', 'else', 'while',
              'for') + SINGLE_WORD


# ------------------------------------------------------------------ layout notions of the property text
_SKIP = re.compile(r'\s*(?:#.*)?\Z')


def is_skip(s):
    """blank or comment physical line"""
    return _SKIP.match(s) is not None


def cont_body(s):
    """text before the continuation backslash when the physical line ends in backslash + optional whitespace, else None"""
    t = s.rstrip()
    return t[:-1] if t.endswith('\\') else None


def join_parts(phys):
    """logical text of ONE logical line given its physical lines (embedded comment/blank lines allowed); None if it does
    not form exactly one complete logical line"""
    parts = []
    done = False
    for s in phys:
        if is_skip(s):
            continue
        if done:
            return None
        b = cont_body(s)
        if b is not None:
            parts.append(b.strip() if parts else b.rstrip())
        else:
            if parts:
                parts.append(s.strip())
            else:
                return s
            done = True
    if not done:
        return None
    return ' '.join(parts)


def assemble(phys):
    """physical lines -> items: ('skip', text) | ('line', [physical lines incl. embedded skips], logical text).
    Raises ValueError on a dangling continuation."""
    items = []
    cur = None
    parts = None
    for s in phys:
        if is_skip(s):
            if cur is not None:
                cur.append(s)
            else:
                items.append(('skip', s))
            continue
        b = cont_body(s)
        if cur is None:
            if b is None:
                items.append(('line', [s], s))
            else:
                cur = [s]
                parts = [b.rstrip()]
        else:
            cur.append(s)
            if b is None:
                parts.append(s.strip())
                items.append(('line', cur, ' '.join(parts)))
                cur = None
            else:
                parts.append(b.strip())
    if cur is not None:
        raise ValueError('dangling continuation')
    return items


# ------------------------------------------------------------------ statement tokenizer
_TOK = re.compile(
    r"(?P<ws>\s+)"
    r"|(?P<num>\d+(?:\.\d*)?(?:e[+-]\d+)?)"
    r"|(?P<id>[A-Za-z_]\w*)"
    r"|(?P<str>'(?:\\\\|\\'|[^'])*')"
    r'|(?P<dstr>"(?:\\\\|\\"|[^"])*")'
    r"|(?P<brk>\[(?:\\\]|[^\]])+\])"
    r"|(?P<dots>\.\.\.)"
    r"|(?P<op>\*\*|<=|>=|==|!=|&&|\|\||[*/%+\-<>!])"
    r"|(?P<p>[(),:=])")
_INCLUDE = re.compile(r"(\s*)include(\s+)('(?:\\'|[^'])*'|<[^>]*>)(\s*)\Z")
_WORD = re.compile(r'\w')


def _lex_raw(text):
    pos, n, out = 0, len(text), []
    while pos < n:
        m = _TOK.match(text, pos)
        if m is None or m.end() == pos:
            return None
        if m.lastgroup != 'ws':
            out.append([m.lastgroup, m.group(), m.start(), m.end()])
        pos = m.end()
    return out


class An:
    """analysis of one logical line: statement kind, tokens, whitespace between them, minimal gap widths, gap kinds"""
    __slots__ = ('stmt', 'toks', 'lead', 'seps', 'trail', 'mins', 'kinds')

    def key(self):
        return (self.stmt, self.toks)


def _kindname(tok):
    k, t = tok
    if k == 'kw' or k == 'p':
        return t
    return k


def analyse(text):
    """tokenize a logical line; None when the line is outside the tokenizer's grammar (then it is never rewritten at token
    level)."""
    an = An()
    m = _INCLUDE.match(text)
    if m is not None:
        an.stmt = 'include'
        an.toks = (('kw', 'include'), ('url', m.group(3)))
        an.lead, an.seps, an.trail = m.group(1), [m.group(2)], m.group(4)
        an.mins = [1]
        an.kinds = ['include:include|url']
        return an
    raw = _lex_raw(text)
    if not raw:
        return None
    n = len(raw)
    txt = [t[1] for t in raw]
    knd = [t[0] for t in raw]

    def ws_after(i):
        return i + 1 < n and raw[i + 1][2] > raw[i][3]

    kw = set()
    expr = None              # [lo, hi) token range that is an expression
    if knd[0] == 'id' and n >= 3 and txt[1] == '=':
        stmt, expr = 'assign', (2, n)
    elif txt[0] == 'async' and n > 2 and txt[1] == 'function' and knd[2] == 'id' and txt[-1] == ':':
        stmt = 'function'
        kw = {0, 1}
    elif txt[0] == 'function' and n > 1 and knd[1] == 'id' and ws_after(0) and txt[-1] == ':':
        stmt = 'function'
        kw = {0}
    elif txt[0] in ('if', 'elif', 'while') and n >= 3 and txt[-1] == ':' and ws_after(0):
        stmt, expr, kw = txt[0], (1, n - 1), {0}
    elif txt[0] == 'for' and n >= 5 and txt[-1] == ':' and ws_after(0) and knd[1] == 'id':
        k = 2
        if txt[2] == ',' and knd[3] == 'id':
            k = 4
        if not (k < n and txt[k] == 'in' and ws_after(k)):
            return None
        stmt, expr, kw = 'for', (k + 1, n - 1), {0, k}
    elif txt[0] == 'else' and n == 2 and txt[1] == ':':
        stmt, kw = 'else', {0}
    elif n == 1 and txt[0] in SINGLE_WORD:
        stmt, kw = txt[0], {0}
    elif n == 2 and knd[0] == 'id' and txt[1] == ':':
        stmt = 'label'
    elif txt[0] == 'jump' and n == 2 and knd[1] == 'id':
        stmt, kw = 'jump', {0}
    elif txt[0] == 'jumpif' and n >= 5 and txt[1] == '(' and txt[-2] == ')' and knd[-1] == 'id' and ws_after(n - 2):
        stmt, expr, kw = 'jumpif', (2, n - 2), {0}
    elif txt[0] == 'return' and (n == 1 or ws_after(0)):
        stmt, kw = 'return', {0}
        expr = (1, n) if n > 1 else None
    else:
        stmt, expr = 'expr', (0, n)
        if knd[0] == 'id' and n > 1 and txt[1] == '==':
            return None      # `a == b` as a statement is read as a malformed assignment by the parser: never a valid base
    if stmt == 'function':
        # header shape: [async] function name ( [id {, id}] [...] ) :
        rest = txt[len(kw) + 1:]
        if len(rest) < 3 or rest[0] != '(' or rest[-2] != ')':
            return None
    # a leading '+' glued to a number in operand position is part of the number literal
    toks = []                # (kind, text, start, end)
    if expr is not None:
        lo, hi = expr
        i = 0
        operand = True
        while i < n:
            k, t = knd[i], txt[i]
            if i < lo or i >= hi:
                toks.append(('kw' if i in kw else k, t, raw[i][2], raw[i][3]))
                i += 1
                continue
            if i == lo:
                operand = True
            if k == 'op':
                if operand and t == '+':
                    if i + 1 < hi and knd[i + 1] == 'num' and raw[i + 1][2] == raw[i][3]:
                        toks.append(('num', t + txt[i + 1], raw[i][2], raw[i + 1][3]))
                        i += 2
                        operand = False
                        continue
                    return None
                if operand and t not in ('-', '!'):
                    return None
                if not operand and t == '!':
                    return None
                toks.append((k, t, raw[i][2], raw[i][3]))
                operand = True
            elif k == 'p':
                if t in ':=' or (t == ',' and operand):
                    return None
                toks.append((k, t, raw[i][2], raw[i][3]))
                operand = t != ')'
            elif k == 'dots':
                return None
            else:
                if not operand:
                    return None
                toks.append((k, t, raw[i][2], raw[i][3]))
                operand = False
            i += 1
        if operand:
            return None      # an expression cannot end where an operand is expected
    else:
        toks = [('kw' if i in kw else knd[i], txt[i], raw[i][2], raw[i][3]) for i in range(n)]
    an.stmt = stmt
    an.toks = tuple((k, t) for k, t, _, _ in toks)
    an.lead = text[:toks[0][2]]
    an.trail = text[toks[-1][3]:]
    an.seps = [text[a[3]:b[2]] for a, b in zip(toks, toks[1:])]
    toks = an.toks
    nt = len(toks)
    mins, kinds = [], []
    for i in range(nt - 1):
        a, b = toks[i], toks[i + 1]
        mn = 0
        if _WORD.match(a[1][-1]) and _WORD.match(b[1][0]):
            mn = 1
        elif a[0] == 'kw' and a[1] not in ('jumpif', 'else'):
            mn = 1
        elif b[0] == 'kw':
            mn = 1
        elif stmt == 'jumpif' and i == nt - 2:
            mn = 1
        mins.append(mn)
        kinds.append(f'{stmt}:{_kindname(a)}|{_kindname(b)}')
    an.mins = mins
    an.kinds = kinds
    return an


# ------------------------------------------------------------------ programs
class Line:
    __slots__ = ('phys', 'text', 'an')


class Prog:
    """a base program: physical lines, items (skip lines / logical lines) and the token analysis of every logical line"""

    def __init__(self, text, name):
        self.name = name
        self.text = text
        phys = re.split(r'\r?\n', text)
        if len(phys) > 1 and phys[-1] == '':
            phys.pop()
        self.phys = phys
        self.items = []
        self.lines = []
        self.opaque = 0
        for it in assemble(phys):
            if it[0] == 'skip':
                self.items.append(it[1])
            else:
                ln = Line()
                ln.phys, ln.text = it[1], it[2]
                ln.an = analyse(it[2])
                if ln.an is None:
                    self.opaque += 1
                self.items.append(ln)
                self.lines.append(ln)

    def gaps(self):
        """[(line index, gap index)] gap index -1 = before the first token"""
        out = []
        for li, ln in enumerate(self.lines):
            if ln.an is None:
                continue
            out.append((li, -1))
            out += [(li, g) for g in range(len(ln.an.seps))]
        return out


def render_line(an, lead, seps, trail):
    """physical lines of one logical line; lead / every sep is a whitespace string or a break
    ('B', ws before backslash, ws after backslash, [comment/blank lines], indentation of the next part)"""
    out = []
    if isinstance(lead, tuple):
        out.append(lead[1] + '\\' + lead[2])
        out.extend(lead[3])
        cur = lead[4]
    else:
        cur = lead
    cur += an.toks[0][1]
    for tok, s in zip(an.toks[1:], seps):
        if isinstance(s, tuple):
            out.append(cur + s[1] + '\\' + s[2])
            out.extend(s[3])
            cur = s[4] + tok[1]
        else:
            cur += s + tok[1]
    out.append(cur + trail)
    return out


def rand_skip(r):
    return r.choice(COMMENTS) if r.random() < 0.5 else r.choice(BLANKS)


def rand_break(r, p_skip=0.3):
    skips = []
    while r.random() < p_skip and len(skips) < 3:
        skips.append(rand_skip(r))
    return ('B', r.choice(['', ' ', ' ', '  ', '\t']), r.choice(TRAILS), skips, r.choice(INDENTS))


def rand_ws(r, mn):
    if mn == 0 and r.random() < 0.3:
        return ''
    return r.choice(GAPWS)


def _safe_trail(an, trail, parts):
    """quarantine of the bare-return finding: see module docstring"""
    if QUARANTINE_BARE_RETURN_WS and an.stmt == 'return' and len(an.toks) == 1 and parts == 1 and len(trail) > 1:
        return trail[:1]
    return trail


# ------------------------------------------------------------------ physical-line transforms
def t_comments(phys, r, p=0.3):
    out = []
    n = 0
    for s in phys:
        while r.random() < p:
            out.append(rand_skip(r))
            n += 1
            if r.random() < 0.5:
                break
        out.append(s)
    while r.random() < p:
        out.append(rand_skip(r))
        n += 1
    return out, n


def _is_bare_return(s, in_cont):
    return QUARANTINE_BARE_RETURN_WS and not in_cont and s.strip() == 'return'


def t_indent(phys, r, uniform=None):
    out = []
    for s in phys:
        if s.strip() == '':
            out.append(s)
            continue
        ind = uniform if uniform is not None else r.choice(INDENTS)
        out.append(ind + s.lstrip())
    return out


def t_trail(phys, r, uniform=None):
    out = []
    in_cont = False
    for s in phys:
        tr = uniform if uniform is not None else r.choice(TRAILS)
        if is_skip(s):
            out.append(s + tr if s.strip() != '' else s)
            continue
        if _is_bare_return(s, in_cont):
            if len(s) - len(s.rstrip()) + len(tr) > 1:
                tr = ''
        out.append(s + tr)
        in_cont = cont_body(s) is not None
    return out


def serialise_text(phys, r, eol, final):
    """eol: 'lf' | 'crlf' | 'mixed'"""
    def e():
        if eol == 'mixed':
            return r.choice(['\n', '\r\n'])
        return '\r\n' if eol == 'crlf' else '\n'
    text = ''.join(s + e() for s in phys[:-1]) + phys[-1]
    if final:
        text += e()
    return {'text': text}


def serialise_chunks(phys, r, cuts, eol='lf', nl='none', empties=False):
    """cuts: sorted line-boundary indices in 1..len-1. nl: 'none' | 'trail' | 'lead' | 'random' (a chunk that carries its own
    newline yields an extra blank line at the boundary). empties: insert '' chunks."""
    def e():
        if eol == 'mixed':
            return r.choice(['\n', '\r\n'])
        return '\r\n' if eol == 'crlf' else '\n'
    bounds = [0] + list(cuts) + [len(phys)]
    chunks = []
    for a, b in zip(bounds, bounds[1:]):
        seg = phys[a:b]
        c = ''.join(s + e() for s in seg[:-1]) + seg[-1]
        mode = nl if nl != 'random' else r.choice(['none', 'none', 'trail', 'lead', 'both'])
        if mode in ('trail', 'both'):
            c += e()
        if mode in ('lead', 'both'):
            c = e() + c
        if empties and r.random() < 0.3:
            chunks.append('')
        chunks.append(c)
    if empties and r.random() < 0.5:
        chunks.append('')
    # the chunk sequence reaches parse_script as a list, a tuple, or a ONE-SHOT iterable (iterator / generator, as a file object is)
    return {'chunks': chunks, 'as': r.choice(['list', 'list', 'tuple', 'iter', 'gen'])}


def all_cuts(nlines, maxcuts=6):
    m = nlines - 1
    for k in range(0, min(maxcuts, m) + 1):
        for c in itertools.combinations(range(1, m + 1), k):
            yield list(c)


def n_cuts(nlines, maxcuts=6):
    import math
    m = nlines - 1
    return sum(math.comb(m, k) for k in range(0, min(maxcuts, m) + 1))


# ------------------------------------------------------------------ hand-written bases
HAND = {
    'functions': """async function fetchAll(url, opts, rest...):
    x1 = systemFetch(url)
    return x1
endfunction
function noArgs():
    return
endfunction
function lastOnly(args...):
    return arrayLength(args)
endfunction
function two(a, b):
    if a:
        return b
    endif
    return a + b
endfunction
async function asyncNone():
endfunction
""",
    'jumps': """ix = 0
loop:
    ix = ix + 1
    jumpif (ix < 10) loop
    jumpif ((ix - 1) * (2 + ix) >= fn2(ix, 'a)')) done
    jump done
    systemLog('never')
done:
systemLog("ix = " + ix)
""",
    'includes': """include 'a.bare'
include <args.bare>
include 'it\\'s here/b c.bare'
include <https://example.com/x y.bare>
x1 = 1
include <forms.bare>
function ff():
    return 1
endfunction
include 'z.bare'
""",
    'loops': """total = 0
for row, ixRow in arrayNew(1, 2, 3):
    for col in row:
        if col == 1:
            continue
        elif col == 2 || col > 10:
            break
        elif !col:
            total = total - 1
        else:
            total = total + col
        endif
    endfor
    nn = 0
    while nn < 3 && total >= 0:
        nn = nn + 1
        if nn % 2:
            continue
        endif
        while true:
            break
        endwhile
    endwhile
endfor
return total
""",
    'strings': """s1 = 'a # not a comment'
s2 = "say \\"hi\\": it's # here"
s3 = 'back\\\\slash'
s4 = 'it\\'s : ok'
s5 = [my var] + [a \\] b] + [x:y # z]
if s1 == 'x:':
    s6 = 'ends with backslash \\\\'
endif
while s2 != "# :":
    s2 = "# :"
endwhile
for ch in stringSplit('a,b', ','):
    systemLog('[' + ch + ']: \\\\')
endfor
s7 = '  spaced   out  ' + "\ttab"
s8 = ''
s9 = ""
""",
    'numbers': """n1 = 2.5 + 7e+2 - 1.e-3 * 10.25e-1
n2 = +3 - -4 + (+5) + ff2(+1, -2, !x, -(-y))
n3 = n1 -1
n4 = n1 - 1 ** 2 ** 3 / 4 % 5
n5 = !(n1 <= n2) && n3 < n4 || n1 >= n2 == (n3 > n4) != true
n6 = -n1 + - n2
n7 = !-n1
n8 = 2. * 3
""",
    'keywordish': """iffy = 1
forx = 2
elsewhere:
returned = 3
jumper = includes + endifx
if(iffy, forx, returned)
while2(1)
x9 = if(a, if (b, 1, 2), 3)
returnx
return returned
""",
    'nest': """function deep(aa, bb...):
    if aa:
        for vv, ii in bb:
            while ii < vv:
                if ii == 2:
                    break
                elif ii == 3:
                    continue
                else:
                    ii = ii + 1
                endif
            endwhile
        endfor
    elif bb:
        return
    else:
        return null
    endif
endfunction
deep(1, 2, 3)
""",
    'unicode': """na\u00efve = 'caf\u00e9 \u00a0 \u2003 x'
r\u00e9sum\u00e9 = "\u00fc:#" + [var \u00e9\u00a0x]
if na\u00efve == r\u00e9sum\u00e9:
    systemLog(na\u00efve)
endif
""",
    'prelaid': """# header comment
aa = fn1( \\
    1, \\

    # inner comment \\
    'two # 2', \\
    [thr ee] \\
)

if aa && \\
   bb:
    \\
    cc = 1
else \\
    :
    cc = 2
endif
""",
    'tiny': """x = 1
""",
    'ifelse': """if a:
b = 1
else:
b = 2
endif
""",
    'exprs': """fn1()
fn1 ( )
fn2(fn1(), (a), ((b)))
(a + b) * c
a
'str'
1
[b c]
-a
!fn1(a)
""",
}

INVALID = {
    'syntax-tail': "x = 1\ny = 1 +\nz = 2\n",
    'missing-endif': "a = 0\nif a:\n  b = 1\n",
    'stray-endif': "a = 1\nendif\n",
    'open-call': "a = 1\nfoo(1,\n",
    'continued-bad': "a = 1\nb = 1 + \\\n   * 2 \\\n  + 3\nc = 1\n",
    'nested-function': "function f():\nfunction g():\nendfunction\nendfunction\n",
    'stray-break': "a = 1\nbreak\n",
    'wrong-end': "while x:\n  y = 1\nendfor\n",
    'open-paren': "a = 1\n\nb = (2\n",
    'else-else': "if a:\nelse:\nelse:\nendif\n",
    'bad-if-cond': "if a +:\nendif\n",
    'missing-endfunction': "function f():\n  return 1\n",
    'dangling-continuation': "a = 1\nb = 2 + \\\n",
    'dangling-continuation-2': "a = fn1( \\\n  1, \\\n",
}


# ------------------------------------------------------------------ builder
class Builder:
    def __init__(self, r, tier):
        self.r = r
        self.quick = tier != 'thorough'
        self.cases = []
        self.ngroups = 0
        self.info = {'selfcheck_dropped': 0, 'opaque_lines': 0, 'base_programs': {}, 'single_break_gap_kinds': {},
                     'single_ws_gap_kinds': {}, 'stmt_kinds_broken': {}, 'logical_lines': 0, 'gaps_total': 0,
                     'exhaustive_chunk_programs': 0}

    # -- groups and cases
    def group(self, prog, family, invalid=False):
        g = self.ngroups
        self.ngroups += 1
        self.info['base_programs'][family] = self.info['base_programs'].get(family, 0) + 1
        self.info['opaque_lines'] += prog.opaque
        self.info['logical_lines'] += len(prog.lines)
        self.cases.append({'payload': {'text': prog.text}, 'tag': 'base', 'group': g, 'base': True, 'rewrite': 'none',
                           'name': prog.name, 'family': family, 'invalid_base': invalid, 'text_preserving': True,
                           'nbreaks': 0, 'nskips': 0})
        return g

    def add(self, g, prog, payload, tag, rewrite, text_preserving, nbreaks=0, nskips=0, invalid=False):
        self.cases.append({'payload': payload, 'tag': tag, 'group': g, 'rewrite': rewrite, 'name': prog.name,
                           'invalid_base': invalid, 'text_preserving': text_preserving, 'nbreaks': nbreaks, 'nskips': nskips})

    # -- token-level plans
    def check_line(self, an, phys):
        t = join_parts(phys)
        if t is None:
            return False
        a2 = analyse(t)
        return a2 is not None and a2.key() == an.key()

    def plan_phys(self, prog, plan):
        """plan: {line index: (lead, seps, trail)} -> physical lines, number of breaks"""
        out = []
        nb = 0
        li = -1
        for it in prog.items:
            if isinstance(it, str):
                out.append(it)
                continue
            li += 1
            p = plan.get(li)
            if p is None or it.an is None:
                out.extend(it.phys)
                continue
            lead, seps, trail = p
            k = (1 if isinstance(lead, tuple) else 0) + sum(1 for s in seps if isinstance(s, tuple))
            trail = _safe_trail(it.an, trail, k + 1)
            ph = render_line(it.an, lead, seps, trail)
            if not self.check_line(it.an, ph):
                self.info['selfcheck_dropped'] += 1
                out.extend(it.phys)
                continue
            nb += k
            out.extend(ph)
        return out, nb

    def plan_one(self, prog, li, gi, sep):
        an = prog.lines[li].an
        seps = list(an.seps)
        lead = an.lead
        if gi < 0:
            lead = sep
        else:
            seps[gi] = sep
        return {li: (lead, seps, an.trail)}

    def plan_random(self, prog, r, p_break, p_ws, lines=None, max_breaks=8):
        plan = {}
        for li, ln in enumerate(prog.lines):
            an = ln.an
            if an is None or (lines is not None and li not in lines):
                continue
            nb = 0
            lead = an.lead
            if r.random() < p_break * 0.5:
                lead = rand_break(r)
                nb += 1
            elif r.random() < p_ws:
                lead = r.choice(INDENTS)
            seps = []
            for s, mn in zip(an.seps, an.mins):
                c = r.random()
                if c < p_break and nb < max_breaks:
                    seps.append(rand_break(r))
                    nb += 1
                elif c < p_break + p_ws:
                    seps.append(rand_ws(r, mn))
                else:
                    seps.append(s)
            trail = r.choice(TRAILS) if r.random() < p_ws else an.trail
            plan[li] = (lead, seps, trail)
        return plan

    def plan_style(self, prog, style):
        """all gaps of all lines in one style: 'compact' (no space where optional), 'single', 'wide', 'tab'"""
        plan = {}
        for li, ln in enumerate(prog.lines):
            an = ln.an
            if an is None:
                continue
            if style == 'compact':
                seps = ['' if mn == 0 else ' ' for mn in an.mins]
            elif style == 'single':
                seps = [' '] * len(an.mins)
            elif style == 'wide':
                seps = ['   '] * len(an.mins)
            else:
                seps = ['\t'] * len(an.mins)
            plan[li] = (an.lead, seps, an.trail)
        return plan

    def plan_break_every_line(self, prog, r):
        plan = {}
        for li, ln in enumerate(prog.lines):
            an = ln.an
            if an is None:
                continue
            gi = r.randrange(-1, len(an.seps))
            plan.update(self.plan_one(prog, li, gi, rand_break(r)))
        return plan

    def plan_multi(self, prog, r, li, k):
        an = prog.lines[li].an
        idx = list(range(-1, len(an.seps)))
        r.shuffle(idx)
        chosen = sorted(idx[:k])
        seps = list(an.seps)
        lead = an.lead
        for gi in chosen:
            b = rand_break(r, 0.5)
            if gi < 0:
                lead = b
            else:
                seps[gi] = b
        return {li: (lead, seps, r.choice(TRAILS))}, len(chosen)

    # -- serialisation choices
    def ser_random(self, phys, r):
        c = r.random()
        if c < 0.35:
            return serialise_text(phys, r, r.choice(['lf', 'crlf', 'mixed']), r.random() < 0.7), 'text'
        n = len(phys)
        if c < 0.5:
            cuts = list(range(1, n))
            return serialise_chunks(phys, r, cuts, 'lf', r.choice(['none', 'trail'])), 'chunk-per-line'
        k = min(r.randint(0, 6), n - 1)
        cuts = sorted(r.sample(range(1, n), k)) if k else []
        return (serialise_chunks(phys, r, cuts, r.choice(['lf', 'crlf', 'mixed']), r.choice(['none', 'random']),
                                 r.random() < 0.3), f'chunks@{cuts}')

    def plain(self, phys):
        return {'text': '\n'.join(phys) + '\n'}

    # -- families on one group
    def fam_eol(self, g, prog, r, count, invalid=False):
        opts = [('crlf', True), ('crlf', False), ('mixed', True), ('lf', False), ('mixed', False)]
        r.shuffle(opts)
        for eol, final in opts[:count]:
            self.add(g, prog, serialise_text(prog.phys, r, eol, final), 'eol', f'eol={eol} final_newline={final}', True,
                     invalid=invalid)

    def fam_chunks(self, g, prog, r, count, exhaustive=False, invalid=False):
        n = len(prog.phys)
        if exhaustive:
            self.info['exhaustive_chunk_programs'] += 1
            for cuts in all_cuts(n):
                self.add(g, prog, serialise_chunks(prog.phys, r, cuts), 'chunks-exhaustive', f'cuts={cuts}', True, invalid=invalid)
        fixed = [(list(range(1, n)), 'none', 'lf', False, 'one chunk per line, no newlines'),
                 (list(range(1, n)), 'trail', 'lf', False, 'one chunk per line, each with its newline'),
                 (list(range(1, n)), 'trail', 'crlf', False, 'one chunk per line, each with CRLF'),
                 ([], 'trail', 'lf', True, 'single chunk + empty chunks')]
        todo = fixed[:count] if count <= 2 else fixed
        for cuts, nl, eol, emp, desc in todo:
            self.add(g, prog, serialise_chunks(prog.phys, r, cuts, eol, nl, emp), 'chunks', desc, True, invalid=invalid)
        for _ in range(max(0, count - len(todo))):
            k = min(r.randint(1, 6), n - 1)
            cuts = sorted(r.sample(range(1, n), k)) if k > 0 else []
            eol = r.choice(['lf', 'lf', 'crlf', 'mixed'])
            nl = r.choice(['none', 'random', 'trail', 'lead'])
            emp = r.random() < 0.3
            self.add(g, prog, serialise_chunks(prog.phys, r, cuts, eol, nl, emp), 'chunks',
                     f'cuts={cuts} eol={eol} chunk_newlines={nl} empties={emp}', True, invalid=invalid)

    def fam_bracket(self, g, prog):
        """white space (or a continuation break) directly after the `[` of a bracketed variable name is not part of the name"""
        for li, line in enumerate(prog.phys):
            if is_skip(line) or line.rstrip().endswith('\\'):
                continue
            raw = _lex_raw(line)
            if not raw:
                continue
            for kind, text, a, b in raw:
                if kind != 'brk':
                    continue
                for w, what in ((' ', 'a blank'), ('\t ', 'tab and blank'), (' \\\n    ', 'a continuation break')):
                    new = line[:a + 1] + w + line[a + 1:]
                    ph = prog.phys[:li] + new.split('\n') + prog.phys[li + 1:]
                    self.add(g, prog, self.plain(ph), 'bracket-ws', f'{what} after the [ of {text!r} in line {li}', False,
                             nbreaks=1 if '\n' in w else 0)

    def fam_comments(self, g, prog, r, count, invalid=False):
        for _ in range(count):
            ph, n = t_comments(prog.phys, r)
            self.add(g, prog, self.plain(ph), 'comments', f'{n} comment/blank lines inserted (p=0.3)', True, nskips=n,
                     invalid=invalid)

    def fam_indent(self, g, prog, r, count):
        for i in range(count):
            c = r.random()
            if c < 0.4:
                ph = t_indent(prog.phys, r)
                self.add(g, prog, self.plain(ph), 'indent', 'random indentation of every physical line', False)
            elif c < 0.7:
                ph = t_trail(prog.phys, r)
                self.add(g, prog, self.plain(ph), 'trailing-ws', 'random trailing whitespace on every physical line', False)
            else:
                ind = r.choice(INDENTS)
                tr = r.choice(TRAILS[1:])
                ph = t_trail(t_indent(prog.phys, r, ind), r, tr)
                self.add(g, prog, self.plain(ph), 'indent', f'uniform indentation {ind!r} and trailing {tr!r}', False)

    def fam_tok(self, g, prog, r, count):
        """whole-program token-level variants: break in every line, multi-break, styles, random"""
        if not any(ln.an is not None for ln in prog.lines):
            return
        kinds = ['break-all', 'ws-all', 'breakN', 'ws-style', 'break-all', 'ws-all', 'breakN', 'ws-style']
        for i in range(count):
            kind = kinds[i % 4] if count >= 4 and i < 8 else r.choice(kinds)
            if kind == 'break-all':
                ph, nb = self.plan_phys(prog, self.plan_break_every_line(prog, r))
                self.add(g, prog, self.plain(ph), 'break-all', 'one continuation break at a random gap of every logical line',
                         False, nbreaks=nb)
            elif kind == 'ws-all':
                ph, nb = self.plan_phys(prog, self.plan_random(prog, r, 0.0, 0.6))
                self.add(g, prog, self.plain(ph), 'ws-all', 'random whitespace at 60% of all gaps', False)
            elif kind == 'breakN':
                cand = [li for li, ln in enumerate(prog.lines) if ln.an is not None]
                li = r.choice(cand)
                k = r.randint(2, 8)
                plan, _ = self.plan_multi(prog, r, li, k)
                ph, nb = self.plan_phys(prog, plan)
                nsk = sum(1 for s in ph if is_skip(s)) - sum(1 for s in prog.phys if is_skip(s))
                self.add(g, prog, self.plain(ph), 'breakN', f'{nb} breaks in logical line {li} ({prog.lines[li].text.strip()[:60]!r})',
                         False, nbreaks=nb, nskips=max(0, nsk))
            else:
                style = r.choice(['compact', 'single', 'wide', 'tab'])
                ph, nb = self.plan_phys(prog, self.plan_style(prog, style))
                self.add(g, prog, self.plain(ph), 'ws-style', f'all gaps {style}', False)

    def fam_combo(self, g, prog, r, count):
        for _ in range(count):
            pb = r.choice([0.0, 0.1, 0.25, 0.5])
            pw = r.choice([0.0, 0.2, 0.5])
            ph, nb = self.plan_phys(prog, self.plan_random(prog, r, pb, pw))
            desc = [f'gaps: p_break={pb} p_ws={pw}']
            nsk = 0
            if r.random() < 0.6:
                ph, nsk = t_comments(ph, r)
                desc.append(f'{nsk} skip lines')
            if r.random() < 0.5:
                ph = t_indent(ph, r)
                desc.append('indent')
            if r.random() < 0.5:
                ph = t_trail(ph, r)
                desc.append('trailing')
            payload, sdesc = self.ser_random(ph, r)
            desc.append(sdesc)
            self.add(g, prog, payload, 'combo', '; '.join(desc), False, nbreaks=nb, nskips=nsk)

    def single_break(self, g, prog, r, li, gi):
        an = prog.lines[li].an
        b = rand_break(r)
        ph, nb = self.plan_phys(prog, self.plan_one(prog, li, gi, b))
        kind = f'{an.stmt}:lead' if gi < 0 else an.kinds[gi]
        d = self.info['single_break_gap_kinds']
        d[kind] = d.get(kind, 0) + 1
        d2 = self.info['stmt_kinds_broken']
        d2[an.stmt] = d2.get(an.stmt, 0) + 1
        where = 'before the first token' if gi < 0 else f'between {an.toks[gi][1]!r} and {an.toks[gi + 1][1]!r}'
        self.add(g, prog, self.plain(ph), 'break1',
                 f'break {where} of line {li} ({prog.lines[li].text.strip()[:60]!r}); ws after backslash {b[2]!r}; {len(b[3])} skip lines',
                 False, nbreaks=nb, nskips=len(b[3]))

    def single_ws(self, g, prog, r, li, gi, ws=None):
        an = prog.lines[li].an
        if gi < 0:
            w = r.choice(INDENTS) if ws is None else ws
        else:
            w = rand_ws(r, an.mins[gi]) if ws is None else ws
            if w == an.seps[gi]:
                w = an.seps[gi] + ' ' if an.seps[gi] != ' ' else '\t'
        ph, _ = self.plan_phys(prog, self.plan_one(prog, li, gi, w))
        kind = f'{an.stmt}:lead' if gi < 0 else an.kinds[gi]
        d = self.info['single_ws_gap_kinds']
        d[kind] = d.get(kind, 0) + 1
        where = 'before the first token' if gi < 0 else f'between {an.toks[gi][1]!r} and {an.toks[gi + 1][1]!r}'
        self.add(g, prog, self.plain(ph), 'ws1', f'whitespace {w!r} {where} of line {li} ({prog.lines[li].text.strip()[:60]!r})', False)

    # -- base program families
    def do_hand(self):
        r = self.r
        for name, text in HAND.items():
            prog = Prog(text, 'hand:' + name)
            self.hand_group(prog, r, True)
            # the same program re-based in compact form (no optional whitespace) and in single-space form: a parser that
            # wrongly REQUIRES or FORBIDS a space somewhere then differs between base and variants
            for style in ('compact', 'single'):
                ph, _ = self.plan_phys(prog, self.plan_style(prog, style))
                ph = [s.lstrip() if not is_skip(s) else s for s in ph] if style == 'compact' else ph
                p2 = Prog('\n'.join(ph) + '\n', f'hand:{name}:{style}')
                if p2.opaque == 0 and [ln.an.key() for ln in p2.lines] == [ln.an.key() for ln in prog.lines if ln.an is not None]:
                    self.hand_group(p2, r, False)
                else:
                    self.info['selfcheck_dropped'] += 1

    def hand_group(self, prog, r, full):
        g = self.group(prog, 'hand' if full else 'hand-restyled')
        q = self.quick
        if full:
            self.fam_eol(g, prog, r, 5)
            self.fam_chunks(g, prog, r, 8 if q else 30, exhaustive=n_cuts(len(prog.phys)) <= 500)
            self.fam_comments(g, prog, r, 4 if q else 20)
            self.fam_indent(g, prog, r, 4 if q else 20)
            self.fam_tok(g, prog, r, 8 if q else 40)
            self.fam_bracket(g, prog)
        for style in ('compact', 'single', 'wide', 'tab'):
            ph, _ = self.plan_phys(prog, self.plan_style(prog, style))
            self.add(g, prog, self.plain(ph), 'ws-style', f'all gaps {style}', False)
        self.fam_combo(g, prog, r, (6 if q else 40) if full else (2 if q else 10))
        gaps = prog.gaps()
        self.info['gaps_total'] += len(gaps)
        for li, gi in gaps:
            an = prog.lines[li].an
            self.single_break(g, prog, r, li, gi)
            self.single_ws(g, prog, r, li, gi)
            if gi >= 0 and an.mins[gi] == 0 and an.seps[gi] != '':
                self.single_ws(g, prog, r, li, gi, '')
            if not q:
                self.single_break(g, prog, r, li, gi)
                self.single_ws(g, prog, r, li, gi)

    def do_corpus(self):
        """corpus/C10/*.json: {"name", "base": payload, "variants": [{"payload", "rewrite"}], "text_preserving": bool,
        "invalid_base": bool} - hand seeds and minimised past failures, run first"""
        for path in sorted(glob.glob(os.path.join(core.VERIF, 'corpus', 'C10', '*.json'))):
            try:
                with open(path, encoding='utf-8') as fh:
                    seed = json.load(fh)
                base, variants = seed['base'], seed['variants']
            except (OSError, ValueError, KeyError):
                self.info['corpus_unreadable'] = self.info.get('corpus_unreadable', 0) + 1
                continue
            name = 'corpus:' + seed.get('name', os.path.basename(path))
            prog = _RawProg(source_of(base), name, [])
            g = self.group(prog, 'corpus', invalid=bool(seed.get('invalid_base')))
            self.cases[-1]['payload'] = base
            for v in variants:
                self.add(g, prog, v['payload'], 'corpus', v.get('rewrite', 'corpus variant'), bool(seed.get('text_preserving')),
                         invalid=bool(seed.get('invalid_base')))

    def do_invalid(self):
        r = self.r
        for name, text in INVALID.items():
            prog_phys = re.split(r'\r?\n', text)
            if prog_phys[-1] == '':
                prog_phys.pop()
            prog = _RawProg(text, 'invalid:' + name, prog_phys)
            g = self.group(prog, 'invalid', invalid=True)
            self.fam_eol(g, prog, r, 3, invalid=True)
            self.fam_chunks(g, prog, r, 4, exhaustive=n_cuts(len(prog.phys)) <= 64, invalid=True)
            self.fam_comments(g, prog, r, 3 if self.quick else 10, invalid=True)

    def do_quarantine(self):
        """the bare-return finding, exercised on purpose (see module docstring)"""
        bases = {'top': 'return\n', 'function': 'function f():\n    return\nendfunction\n',
                 'if': 'function f(a):\n    if a:\n        return\n    endif\n    return a\nendfunction\n'}
        for name, text in bases.items():
            prog = Prog(text, 'quarantine:' + name)
            g = self.group(prog, 'quarantine')
            for tr in ['  ', '   ', '\t\t', ' \t']:
                ph = [s + tr if s.strip() == 'return' else s for s in prog.phys]
                self.add(g, prog, self.plain(ph), 'bare-return-trailing-ws', f'trailing whitespace {tr!r} after a bare return', False)

    def small_program(self, prog, fam, r, n_each, n_combo):
        g = self.group(prog, fam)
        if n_each:
            self.fam_eol(g, prog, r, n_each)
            self.fam_chunks(g, prog, r, 2 + n_each)
            self.fam_comments(g, prog, r, n_each)
            self.fam_indent(g, prog, r, n_each)
            self.fam_tok(g, prog, r, 2 * n_each)
        self.fam_combo(g, prog, r, n_combo)
        return g

    def do_generated(self):
        r = self.r
        progs = []
        # exhaustive nesting shapes of depth <= 2
        for chain, flags in scriptgen.shapes(2):
            text = scriptgen.program_text(scriptgen.build_shape(chain, flags))
            prog = Prog(text, 'shape:' + '/'.join(f'{c}{p}' for c, p in chain) + ':' + ','.join(flags))
            g = self.small_program(prog, 'shape', r, 0, 3 if self.quick else 12)
            progs.append((g, prog))
        n = 300 if self.quick else 1500
        nexh = 0
        i = 0
        tries = 0
        while i < n and tries < 20 * n:
            tries += 1
            big = r.random() < 0.12
            if big:
                stmts = scriptgen.gen_program(r, max_depth=3)
            else:
                stmts = scriptgen.gen_program(r, max_depth=r.choice([1, 2, 2]), nfuncs=r.choice([0, 0, 1, 2]))
            ind = r.choice(['    ', '  ', '\t', ''])
            lines = scriptgen.print_stmts(stmts, 0, ind)
            if len(lines) > (150 if big else 60):
                continue
            prog = Prog('\n'.join(lines) + '\n', f'gen:{i}')
            if prog.opaque:
                # e.g. an expression statement `a == b`, which the parser reads as a (malformed) assignment: not a valid base
                self.info['gen_rejected_invalid'] = self.info.get('gen_rejected_invalid', 0) + 1
                continue
            i += 1
            g = self.small_program(prog, 'gen', r, 1, 2 if self.quick else 6)
            if n_cuts(len(prog.phys)) <= 500 and nexh < (4 if self.quick else 40):
                nexh += 1
                self.fam_chunks(g, prog, r, 0, exhaustive=True)
            progs.append((g, prog))
        self.single_gap_coverage(progs, r, per_kind=8 if self.quick else 40, full_programs=0 if self.quick else 150)

    def single_gap_coverage(self, progs, r, per_kind, full_programs):
        """one-break and one-whitespace variants: every gap of the first `full_programs` programs; beyond that, for every
        (statement kind, gap kind) that occurs anywhere, `per_kind` random occurrences"""
        bykind = {}
        for pi, (g, prog) in enumerate(progs):
            gaps = prog.gaps()
            self.info['gaps_total'] += len(gaps)
            for li, gi in gaps:
                an = prog.lines[li].an
                kind = f'{an.stmt}:lead' if gi < 0 else an.kinds[gi]
                bykind.setdefault(kind, []).append((pi, li, gi))
        todo = []
        for kind in sorted(bykind):
            occ = bykind[kind]
            small = [o for o in occ if len(progs[o[0]][1].phys) <= 40]
            if len(small) >= per_kind:
                occ = small            # small programs make small replays and cheap cases
            todo += r.sample(occ, min(per_kind, len(occ)))
        if full_programs:
            gens = [pi for pi, (g, prog) in enumerate(progs) if prog.name.startswith('gen:')][:full_programs]
            for pi in gens:
                todo += [(pi, li, gi) for li, gi in progs[pi][1].gaps()]
        for pi, li, gi in todo:
            g, prog = progs[pi]
            self.single_break(g, prog, r, li, gi)
            self.single_ws(g, prog, r, li, gi)

    def do_shipped(self):
        r = self.r
        inc = os.path.join(core.REPO, 'src', 'bare_script', 'include')
        units = []
        for path in sorted(glob.glob(os.path.join(inc, '*.bare'))):
            with open(path, encoding='utf-8', newline='') as fh:
                text = fh.read()
            name = os.path.basename(path)
            prog = Prog(text, 'shipped:' + name)
            g = self.group(prog, 'shipped-file')
            k = 1 if self.quick else 6
            self.fam_eol(g, prog, r, 2 if self.quick else 5)
            self.fam_chunks(g, prog, r, 3 if self.quick else 12)
            self.fam_comments(g, prog, r, k)
            self.fam_indent(g, prog, r, 2 * k)
            self.fam_tok(g, prog, r, 4 if self.quick else 24)
            self.fam_combo(g, prog, r, 2 if self.quick else 12)
            for ui, utext in enumerate(split_units(prog)):
                up = Prog(utext, f'shipped:{name}#unit{ui}')
                ug = self.small_program(up, 'shipped-unit', r, 0 if self.quick else 1, 3 if self.quick else 6)
                units.append((ug, up))
        self.single_gap_coverage(units, r, per_kind=3 if self.quick else 25, full_programs=0)


class _RawProg:
    """a base text that is not required to be valid (invalid family): physical lines only"""

    def __init__(self, text, name, phys):
        self.text, self.name, self.phys = text, name, phys
        self.opaque = 0
        self.lines = []


def split_units(prog):
    """cut a shipped script into top-level units (a function definition, or a run of top-level statements with balanced
    blocks); every unit is a valid program by itself"""
    units = []
    cur = []
    depth = 0
    in_func = False
    has_line = False
    for it in prog.items:
        if isinstance(it, str):
            cur.append(it)
            continue
        st = it.an.stmt if it.an is not None else 'expr'
        if st == 'function' and depth == 0 and not in_func:
            if has_line:
                units.append(cur)
                cur = []
            in_func = True
            has_line = True
            cur.extend(it.phys)
            continue
        cur.extend(it.phys)
        has_line = True
        if st in ('if', 'while', 'for'):
            depth += 1
        elif st in ('endif', 'endwhile', 'endfor'):
            depth -= 1
        elif st == 'endfunction' and in_func and depth == 0:
            in_func = False
            units.append(cur)
            cur = []
            has_line = False
    if has_line:
        units.append(cur)
    elif cur and units:
        units[-1].extend(cur)
    return ['\n'.join(u) + '\n' for u in units]


def logical_keys(payload):
    """(statement kind, tokens) of every logical line of a worker payload, by this module's own layout rules; None for a
    line outside the tokenizer's grammar.  Raises ValueError on a dangling continuation."""
    parts = payload['chunks'] if 'chunks' in payload else [payload['text']]
    phys = []
    for c in parts:
        phys.extend(re.split(r'\r?\n', c))
    out = []
    for it in assemble(phys):
        if it[0] == 'line':
            an = analyse(it[2])
            out.append(an.key() if an is not None else None)
    return out


def selfcheck(cases):
    """generator sanity (independent of the implementation): every variant of a valid base has the base's sequence of
    tokenized logical lines.  Returns the list of offending case indices (expected: empty)."""
    bad = []
    base = {}
    for i, c in enumerate(cases):
        if c.get('invalid_base'):
            continue
        try:
            k = logical_keys(c['payload'])
        except ValueError:
            k = 'dangling'
        if c.get('base'):
            base[c['group']] = k
        elif k != base[c['group']]:
            bad.append(i)
    return bad


def build_cases(r, tier):
    """r: random.Random (the only randomness). tier 'quick' | 'thorough'.
    Returns a list of case dicts: 'payload' (for the parse_script worker), 'tag' (rewrite family), 'group' (all cases of a
    group are layouts of the same base program; the base case has 'base': True and comes first), 'rewrite' (description)."""
    b = Builder(r, tier)
    b.do_corpus()
    b.do_hand()
    b.do_invalid()
    b.do_quarantine()
    b.do_generated()
    b.do_shipped()
    if b.cases:
        b.cases[0]['_build_info'] = b.info
    return b.cases


# ------------------------------------------------------------------ evaluation
def source_of(payload):
    return payload['text'] if 'text' in payload else CHUNK_MARK.join(payload['chunks'])


def _first_diff(a, b):
    for i in range(max(len(a), len(b))):
        x = a[i] if i < len(a) else None
        y = b[i] if i < len(b) else None
        if x != y:
            return i, x, y
    return None


def _short(res):
    if res is None:
        return None
    if 'ok' in res:
        return {'ok': f'{len(res["ok"])} statements'}
    if 'err' in res:
        return {'err': res['err'][:4]}
    return {k: res[k] for k in res if k.startswith('host')}


def compare(base, var, text_preserving):
    """None when the two worker results are identical in the property's sense, else (class, expected, got)"""
    if 'host' in base or 'host' in var:
        if base.get('host') == var.get('host') and 'host' in base and 'host' in var:
            return None
        return 'host-exception', _short(base), _short(var)
    if 'ok' in base and 'ok' in var:
        if base['ok'] == var['ok']:
            return None
        i, x, y = _first_diff(base['ok'], var['ok'])
        return 'model-differs', {'statement_index': i, 'statement': x}, {'statement_index': i, 'statement': y}
    if 'ok' in base:
        return 'variant-rejected', _short(base), _short(var)
    if 'ok' in var:
        return 'variant-accepted', _short(base), _short(var)
    be, ve = base['err'], var['err']
    if be[0] != ve[0]:
        return 'error-differs', _short(base), _short(var)
    if text_preserving and (be[1] != ve[1] or be[2] != ve[2]):
        return 'error-location-differs', _short(base), _short(var)
    return None


def evaluate(cases, results):
    """(fails, stats): a fail = a case whose worker result differs from its group's base result (see compare)"""
    fails = []
    stats = {'cases': len(cases), 'groups': 0, 'per_tag': {}, 'fails_per_class': {}, 'fails_per_tag': {}, 'fails_total': 0,
             'breaks_inserted': 0, 'skip_lines_inserted': 0, 'chunked_cases': 0, 'distinct_base_models': 0,
             'unexpected_base_errors': 0, 'unexpected_base_error_samples': [], 'invalid_groups': 0, 'variants': 0}
    bases = {}
    models = set()
    for c, res in zip(cases, results):
        if c.get('base'):
            bases[c['group']] = (c, res)
            stats['groups'] += 1
            if c.get('invalid_base'):
                stats['invalid_groups'] += 1
            elif 'ok' not in res:
                stats['unexpected_base_errors'] += 1
                if len(stats['unexpected_base_error_samples']) < 5:
                    stats['unexpected_base_error_samples'].append({'name': c.get('name'), 'result': _short(res)})
            if 'ok' in res:
                models.add(repr(res['ok']))
    stats['distinct_base_models'] = len(models)
    for c, res in zip(cases, results):
        stats['per_tag'][c['tag']] = stats['per_tag'].get(c['tag'], 0) + 1
        stats['breaks_inserted'] += c.get('nbreaks', 0)
        stats['skip_lines_inserted'] += c.get('nskips', 0)
        if 'chunks' in c['payload']:
            stats['chunked_cases'] += 1
        if c.get('base'):
            continue
        stats['variants'] += 1
        bc, bres = bases[c['group']]
        d = compare(bres, res, c.get('text_preserving', False))
        if d is None:
            continue
        cls, exp, got = d
        stats['fails_total'] += 1
        stats['fails_per_class'][cls] = stats['fails_per_class'].get(cls, 0) + 1
        stats['fails_per_tag'][c['tag']] = stats['fails_per_tag'].get(c['tag'], 0) + 1
        if len(fails) < 20000:
            f = {'class': cls, 'tag': c['tag'], 'rewrite': c['rewrite'], 'name': c.get('name'),
                 'base_source': source_of(bc['payload']), 'source': source_of(c['payload']), 'expected': exp, 'got': got,
                 'payload': c['payload']}
            fails.append(f)
    # smallest failing inputs first (they are the replays a reader wants), every (class, tag) represented, at most 200
    fails.sort(key=lambda f: len(f['source']))
    per = {}
    keep, rest = [], []
    for f in fails:
        k = (f['class'], f['tag'])
        per[k] = per.get(k, 0) + 1
        (keep if per[k] <= 20 else rest).append(f)
    fails = (keep + rest)[:200]
    fails.sort(key=lambda f: len(f['source']))
    info = cases[0].get('_build_info') if cases else None
    if info:
        stats['build'] = {k: v for k, v in info.items() if not isinstance(v, dict)}
        stats['base_programs'] = info['base_programs']
        stats['single_break_gap_kinds'] = len(info['single_break_gap_kinds'])
        stats['single_ws_gap_kinds'] = len(info['single_ws_gap_kinds'])
        stats['stmt_kinds_broken'] = info['stmt_kinds_broken']
        stats['stmt_kinds_never_broken'] = [k for k in STMT_KINDS if k not in info['stmt_kinds_broken']]
        stats['gap_kind_counts'] = info['single_break_gap_kinds']
    return fails, stats


# ------------------------------------------------------------------ determinism / statelessness
def interleave_payload(cases, r, limit=2000, big=3, budget_bytes=700000):
    """(payload, index_map): a shuffled payload for ONE worker process containing every selected case twice (valid, invalid
    and different programs mixed); index_map[k] = index in `cases` of payload item k"""
    small, large, must = [], [], []
    for i, c in enumerate(cases):
        size = len(source_of(c['payload']))
        if c.get('invalid_base'):
            must.append(i)
        elif size > 20000:
            large.append(i)
        else:
            small.append(i)
    sel = must + r.sample(large, min(big, len(large)))
    used = sum(len(source_of(cases[i]['payload'])) for i in sel)
    for i in r.sample(small, min(limit, len(small))):
        used += len(source_of(cases[i]['payload']))
        if used > budget_bytes:
            break
        sel.append(i)
    idx = sel + sel
    r.shuffle(idx)
    return [cases[i]['payload'] for i in idx], idx


def check_interleave(index_map, results_main, results_interleaved):
    """fails: repeated / interleaved parses whose result differs from the main run (hence also from each other)"""
    fails = []
    seen = {}
    for k, i in enumerate(index_map):
        got = results_interleaved[k]
        if got != results_main[i]:
            if len(fails) < 50:
                fails.append({'class': 'nondeterministic-or-stateful', 'case_index': i, 'position': k,
                              'expected': _short(results_main[i]), 'got': _short(got)})
        if i in seen and results_interleaved[seen[i]] != got and len(fails) < 50:
            fails.append({'class': 'repeat-differs', 'case_index': i, 'position': k, 'first_position': seen[i],
                          'expected': _short(results_interleaved[seen[i]]), 'got': _short(got)})
        seen[i] = k
    return fails
