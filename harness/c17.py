"""C17 - includes resolve relative to the including file and run in global scope.

proof        : coq/Props/C17.v  (Model/Url.v = url_file_relative with the pathlib/os.path pieces it uses, over the REGENERATED
               _R_URL regex; the include statement as a pure function over a virtual file system; resolution case analysis,
               compositional facts, fetch order = DFS pre-order of the tree of RESOLVED locations)
direct oracle: include trees to depth 4 and fan-out 3 executed by the implementation (parse_script + execute_script) over a
               dict-backed fetchFn; harness/impl_workers/c17_ref.py (written from the property text) gives the expected
               sequence of fetched LOCATIONS, the log sequence, the final globals and the failure (type, location named).
correspondence: Model/Url.v url_file_relative = implementation on generated (base, url) pairs incl. odd ones;
               Model/Url.v run = implementation's interleaved fetch/log events and outcome on the generated trees.
"""
import glob
import json
import os
import re

from . import core
from .core import cstr, clist, cbool, copt
from .impl_workers import c17_ref

PID = 'C17'
TRUSTED = [
    'Coq 8.16.1 kernel + coqc; vm_compute for running the model (no native_compute)',
    'Print Assumptions of every C17 theorem: Closed under the global context (no axioms)',
    'tools/translate.py: _R_URL of options.py regenerated into coq/Gen/Regexes.v (parsed by CPython\'s own re._parser)',
    'Model/Url.v: hand transliteration of url_file_relative, PurePosixPath.__str__, posixpath.dirname/join/splitroot (CPython 3.12, POSIX) '
    'and of the include statement of runtime.py over an abstract script (validated by the correspondence)',
    'Model/Regex.v matcher (shared)',
    'harness/impl_workers/c17_ref.py: the reference reading of the property (locations modulo ./, // and name/.. spelling; '
    'resolution against the includer\'s own location; global scope; return ends the included script only)',
]

ROOT_LOCS = [None, 'main.bare', 'app/main.bare', 'app/sub/main.bare', '/srv/app/main.bare', 'http://h.local/pkg/main.bare',
             'https://cdn.example.org/a/b/main.bare', 'http://h.local/main.bare']
SYS_PREFIXES = [None, 'system/', 'sys/lib/', '/usr/lib/bs/', 'http://h.local/sys/', ':bare-include:/', 'system/x']
BROKEN_TEXTS = ["x = 1\ny = (2 +\n", "systemLog('pre')\nendif\n", "if x:\n    y = 1\n", "a = 1\nb = 2\nfunction f(:\n",
                "while true\nendwhile\n", "x = 'unterminated\n"]


class TreeGen:
    def __init__(self, r, max_depth=4, fanout=3, plant=None, node_budget=45):
        self.r = r
        self.max_depth = max_depth
        self.fanout = fanout
        self.files = {}          # canonical location -> {'body': ...} | {'broken': True, 'text': ...} | {'raise': True}
        self.in_progress = set()
        self.reserved = set()
        self.counter = 0
        self.entries = 0         # include entries created so far
        self.plant = plant       # index of the include entry that fails, or None
        self.plant_kind = r.choice(['missing', 'missing', 'raise', 'broken', 'broken'])
        self.budget = node_budget
        self.features = set()

    def new_id(self):
        self.counter += 1
        return f'n{self.counter}'

    def ref_for(self, system):
        r = self.r
        name = f'f{r.randint(1, 7)}.bare'
        if system:
            self.features.add('system')
            return r.choice([name, name, 'util/' + name, './' + name])
        c = r.random()
        if c < 0.30:
            return name
        if c < 0.48:
            self.features.add('subdir')
            return r.choice(['sub/', 'lib/', 'lib/x/', 'sub/deep/']) + name
        if c < 0.58:
            self.features.add('dot')
            return r.choice(['./' + name, 'sub/./' + name, './lib/./' + name])
        if c < 0.66:
            self.features.add('dslash')
            return r.choice(['sub//' + name, 'lib//x/' + name])
        if c < 0.78:
            self.features.add('dotdot')
            return r.choice(['../' + name, 'sub/../' + name, '../sib/' + name, '../../' + name])
        if c < 0.89:
            self.features.add('abspath')
            return r.choice(['/abs/' + name, '/abs/d/' + name, '/abs//d/./' + name, '/' + name])
        self.features.add('absurl')
        return r.choice(['http://h.local/pkg/' + name, 'https://other.example.org/' + name, 'http://h.local/pkg/sub/' + name,
                         'http://h.local/' + name])

    def gen_entry(self, loc, depth, sysprefix):
        """one include entry of the file at `loc` -> [ref, system]; creates the target"""
        r = self.r
        for _ in range(20):
            system = r.random() < 0.2
            ref = self.ref_for(system)
            target = c17_ref.resolve(sysprefix, ref) if (system and sysprefix is not None) else c17_ref.resolve(loc, ref)
            if target in self.in_progress:
                continue                                   # would be a cycle: choose another name
            break
        else:
            ref = f'uniq{self.counter}_{self.entries}.bare'
            system = False
            target = c17_ref.resolve(loc, ref)
        idx = self.entries
        self.entries += 1
        if target in self.files or target in self.reserved:
            self.features.add('shared')
            return [ref, system]
        if self.plant is not None and idx == self.plant:
            self.features.add('fail-' + self.plant_kind)
            self.reserved.add(target)              # a missing file stays missing (no later entry creates it)
            if self.plant_kind == 'raise':
                self.files[target] = {'raise': True}
            elif self.plant_kind == 'broken':
                self.files[target] = {'broken': True, 'text': r.choice(BROKEN_TEXTS)}
            return [ref, system]
        self.gen_file(target, depth + 1, sysprefix)
        return [ref, system]

    def gen_file(self, loc, depth, sysprefix, is_root=False):
        r = self.r
        if not is_root:
            self.in_progress.add(loc)
            self.files[loc] = None
        ident = self.new_id()
        body = [['mark', ident]]
        n_entries = 0
        if depth < self.max_depth and self.budget > 0:
            n_entries = r.choice([0, 1, 1, 2, 2, 3, 3]) if depth > 0 else r.choice([1, 2, 3, 3])
        self.budget -= n_entries
        left = n_entries
        while left > 0:
            c = r.random()
            k = r.randint(1, left)
            if c < 0.25:
                body.append(['log', f'{ident}.{len(body)}'])
                continue
            if c < 0.32 and not is_root:
                self.features.add('return')
                body.append(['return'])
                # what follows a return never runs: the entries after it must not be fetched
            if c < 0.80:
                if k >= 2:
                    self.features.add('adjacent')
                body.append(['include', [self.gen_entry(loc, depth, sysprefix) for _ in range(k)]])
            else:
                self.features.add('in-function')
                body.append(['includefn', self.new_id(), [self.gen_entry(loc, depth, sysprefix) for _ in range(k)]])
            left -= k
        if r.random() < 0.6:
            body.append(['log', f'{ident}.end'])
        if r.random() < 0.08 and not is_root:
            body.append(['return'])
            body.append(['log', f'{ident}.unreachable'])
        if not is_root:
            self.in_progress.discard(loc)
            self.files[loc] = {'body': body}
        return body


def gen_tree(r, plant_failure):
    root_loc = r.choice(ROOT_LOCS)
    sysprefix = r.choice(SYS_PREFIXES)
    have_fetch = r.random() > 0.02
    g = TreeGen(r, plant=(r.randint(0, 12) if plant_failure else None))
    if root_loc is not None:
        g.in_progress.add(c17_ref.canon(root_loc))
    root_body = g.gen_file(root_loc, 0, sysprefix, is_root=True)
    files = {k: v for k, v in g.files.items() if v is not None}
    feats = set(g.features)
    feats.add('root:' + ('none' if root_loc is None else 'url' if c17_ref.is_abs_url(root_loc) else 'abs' if root_loc.startswith('/') else 'rel'))
    feats.add('sys:' + ('none' if sysprefix is None else 'url' if c17_ref.is_abs_url(sysprefix) else 'path'))
    return {'root_loc': root_loc, 'sysprefix': sysprefix, 'have_fetch': have_fetch, 'root_body': root_body, 'files': files,
            'features': sorted(feats)}


def corpus_trees():
    """hand seeds: sibling after a sub-directory include; system include from a nested file with a relative prefix; URL base"""
    t1 = {'root_loc': 'main.bare', 'sysprefix': None, 'have_fetch': True,
          'root_body': [['mark', 'r'], ['include', [['lib/a.bare', False], ['b.bare', False]]], ['log', 'end']],
          'files': {'lib/a.bare': {'body': [['mark', 'a'], ['include', [['c.bare', False]]]]}, 'lib/c.bare': {'body': [['mark', 'c']]},
                    'b.bare': {'body': [['mark', 'b']]}}, 'features': ['corpus']}
    t2 = {'root_loc': 'main.bare', 'sysprefix': 'system/', 'have_fetch': True,
          'root_body': [['mark', 'r'], ['include', [['lib/a.bare', False]]], ['log', 'end']],
          'files': {'lib/a.bare': {'body': [['mark', 'a'], ['include', [['util.bare', True]]], ['include', [['b.bare', False]]]]},
                    'system/util.bare': {'body': [['mark', 'u'], ['include', [['helper.bare', False]]]]},
                    'system/helper.bare': {'body': [['mark', 'h']]}, 'lib/b.bare': {'body': [['mark', 'b']]}}, 'features': ['corpus']}
    t3 = {'root_loc': 'http://h.local/pkg/main.bare', 'sysprefix': 'system/', 'have_fetch': True,
          'root_body': [['mark', 'r'], ['includefn', 'w', [['sub/x.bare', False]]], ['include', [['y.bare', False]]]],
          'files': {'http://h.local/pkg/sub/x.bare': {'body': [['mark', 'x'], ['include', [['util.bare', True]]], ['return'], ['log', 'no']]},
                    'system/util.bare': {'body': [['mark', 'u']]}, 'http://h.local/pkg/y.bare': {'body': [['mark', 'y']]}},
          'features': ['corpus']}
    t4 = {'root_loc': 'app/main.bare', 'sysprefix': None, 'have_fetch': True,
          'root_body': [['mark', 'r'], ['include', [['lib/a.bare', False]]], ['log', 'unreached']],
          'files': {'app/lib/a.bare': {'body': [['mark', 'a'], ['include', [['../gone.bare', False]]]]}}, 'features': ['corpus']}
    t5 = {'root_loc': None, 'sysprefix': None, 'have_fetch': True,
          'root_body': [['mark', 'r'], ['include', [['lib/a.bare', False]]]],
          'files': {'lib/a.bare': {'body': [['mark', 'a'], ['include', [['bad.bare', False]]]]},
                    'lib/bad.bare': {'broken': True, 'text': BROKEN_TEXTS[0]}}, 'features': ['corpus']}
    return [t1, t2, t3, t4, t5]


def tracked_names(tree):
    names = {'trace', 'loc'}

    def walk(body):
        for st in body:
            if st[0] == 'mark':
                names.add('seen_' + st[1])
            elif st[0] == 'includefn':
                names.add('r_' + st[1])
    walk(tree['root_body'])
    for f in tree['files'].values():
        if 'body' in f:
            walk(f['body'])
    return sorted(names)


def impl_case(tree):
    files = {}
    for loc, f in tree['files'].items():
        if 'body' in f:
            files[loc] = {'text': c17_ref.render(f['body'])}
        elif f.get('broken'):
            files[loc] = {'text': f['text'], 'broken': True}
        else:
            files[loc] = {'raise': True}
    return {'files': files, 'root': c17_ref.render(tree['root_body'], is_root=True), 'root_loc': tree['root_loc'],
            'sysprefix': tree['sysprefix'], 'have_fetch': tree['have_fetch'], 'track': tracked_names(tree)}


RX_FAILED = re.compile(r'^Include of "(.*)" failed$', re.S)
RX_FROM = re.compile(r'^Included from "(.*)"$', re.S)


def compare(tree, got, exp):
    bad = []
    exc = got.get('exc')
    got_fetched = [c17_ref.canon(u) if isinstance(u, str) else u for u in got.get('fetched', [])]
    exp_fetched = exp['fetched'] if tree['have_fetch'] else []
    if got_fetched != exp_fetched:
        bad.append(('fetch-sequence', {'expected_locations': exp_fetched, 'got_locations': got_fetched, 'got_raw': got.get('fetched')}))
    if got.get('logs') != exp['logs']:
        bad.append(('log-sequence', {'expected': exp['logs'], 'got': got.get('logs')}))
    gg = got.get('globals', {})
    for name in tracked_names(tree):
        e = exp['globals'].get(name, '<absent>')
        if gg.get(name, '<absent>') != e:
            bad.append(('globals', {'name': name, 'expected': e, 'got': gg.get(name, '<absent>')}))
            break
    if exp['fail'] is None:
        if exc is not None:
            bad.append(('unexpected-exception', exc))
    else:
        kind, loc = exp['fail']
        if exc is None:
            bad.append(('missing-exception', {'expected': exp['fail']}))
        elif kind == 'runtime':
            m = RX_FAILED.match(exc.get('msg', ''))
            if exc.get('type') != 'BareScriptRuntimeError' or not m or c17_ref.canon(m.group(1)) != loc:
                bad.append(('runtime-error-does-not-name-resolved-location', {'expected_location': loc, 'got': exc}))
            elif tree['have_fetch'] and got.get('fetched') and m.group(1) != got['fetched'][-1]:
                bad.append(('runtime-error-names-other-spelling-than-fetched', {'fetched': got['fetched'][-1], 'got': exc}))
        else:
            first = exc.get('msg', '').split('\n', 1)[0]
            m = RX_FROM.match(first)
            direct = got.get('direct_errors', {}).get(loc)
            if exc.get('type') != 'BareScriptParserError' or not m or c17_ref.canon(m.group(1)) != loc:
                bad.append(('parser-error-does-not-name-included-location', {'expected_location': loc, 'got': exc}))
            elif direct is None or any(exc.get(k) != direct[k] for k in ('error', 'line', 'column_number', 'line_number')):
                bad.append(('parser-error-differs-from-parsing-the-text-alone', {'direct': direct, 'got': exc}))
    return bad


def check_tree(tree, got):
    """-> list of (class, detail); empty when the property holds on this run"""
    exc = got.get('exc')
    if exc is not None and str(exc.get('type', '')).startswith('worker:'):
        return [('worker-error', exc)]
    args = (tree['files'], tree['root_body'], tree['root_loc'], tree['sysprefix'], tree['have_fetch'])
    exp = c17_ref.ref_run(*args)
    bad = compare(tree, got, exp)
    if not bad and got.get('again_differs'):
        return [('second-run-with-the-same-options-resolves-differently', got['again_differs'])]
    if bad and exp['fail'] is not None and exp['fail'][0] == 'parser':
        # classification only: is this exactly "the parser error was lost at the enclosing function call" (candidate finding F15)?
        alt = c17_ref.ref_run(*args, swallow_parser_error_in_function=True)
        if alt['swallowed'] and not compare(tree, got, alt):
            return [('parser-error-swallowed-inside-function-call',
                     {'expected': 'BareScriptParserError naming ' + exp['fail'][1], 'swallowed_at': alt['swallowed'], 'got_exception': exc,
                      'note': 'the run equals the reference run in which the error is lost at the nearest enclosing function call'})]
    return bad


# ------------------------------------------------------------------ url_file_relative pairs
SEGS = ['', '.', '..', 'a', 'b.bare', 'lib', 'sub dir', 'http:', 'x:', 'C:', 'Http:', 'a1:', ':', '\xe9', 'file:', 'abc:def', 'z', '...', '.a', 'a.']


def ufr_pairs(r, n):
    pairs = []
    fixed = ['', '.', '/', '//', '///', 'a', 'a/', '/a', '//a', '///a', 'a//b', './a', 'a/.', 'a/..', '../a', 'http://h/p/f.bare', 'http:', 'http:/',
             'http:x', 'x:/a/b', ':a', 'a:b/c', 'A:b', 'ab:', '/x:y', 'a/b:c', 'http://h', 'http://h/', 'lib/main.bare', '/srv/m.bare',
             'system/', ':bare-include:/', 'a/./b/../c//', '/./', '/.', './', './/a', '//./a', '\xe9:x', 'a\xe9:x', 'a\n:b', 'ab\n', 'a:\n', '\n', 'a b/c d']
    for b in fixed:
        for u in fixed:
            pairs.append((b, u, 'fixed'))

    def rnd():
        c = r.random()
        if c < 0.7:
            k = r.randint(1, 5)
            return '/'.join(r.choice(SEGS) for _ in range(k))
        return ''.join(r.choice('/.:ab A1\\\xe9-_\n') for _ in range(r.randint(0, 9)))
    for _ in range(n):
        pairs.append((rnd(), rnd(), 'random'))
    return pairs


# ------------------------------------------------------------------ model side
def istmt_coq(st):
    k = st[0]
    if k == 'log':
        return f'IEmit {cstr(st[1])}'
    if k == 'return':
        return 'IRet'
    if k == 'include':
        return 'IInc ' + clist([f'({cstr(ref)}, {cbool(system)})' for ref, system in st[1]])
    if k == 'includefn':
        # r = fn() with body: loc = 'L' / include ... / return loc
        return 'ICall [IInc ' + clist([f'({cstr(ref)}, {cbool(system)})' for ref, system in st[2]]) + '; IRet]'
    return None


def body_coq(body):
    return clist([x for x in (istmt_coq(st) for st in body) if x is not None])


def tree_term(tree, got):
    """run_eqb (run fuel fs opts body) (impl events, impl outcome); the model's file system is keyed by the RAW urls
    the implementation asked for (their content = the file at the canonical location)"""
    fs = []
    seen = set()
    for u in got.get('fetched', []):
        if u in seen:
            continue
        seen.add(u)
        f = tree['files'].get(c17_ref.canon(u))
        if f is None or f.get('raise'):
            continue
        fs.append(f'({cstr(u)}, ' + ('FBroken' if f.get('broken') else f'FText {body_coq(f["body"])}') + ')')
    events = []
    for kind, val in got.get('events', []):
        events.append(f'EFetch {cstr(val)}' if kind == 'fetch' else f'EEmit {cstr(val)}')
    exc = got.get('exc')
    if exc is None:
        out = 'IDone'
    elif exc.get('type') == 'BareScriptRuntimeError' and RX_FAILED.match(exc.get('msg', '')):
        out = f'IFailed {cstr(RX_FAILED.match(exc["msg"]).group(1))}'
    elif exc.get('type') == 'BareScriptParserError' and RX_FROM.match(exc.get('msg', '').split(chr(10), 1)[0]):
        out = f'IParseError {cstr(RX_FROM.match(exc["msg"].split(chr(10), 1)[0]).group(1))}'
    else:
        return 'false'
    opts = (f'{{| o_url_base := {copt(cstr(tree["root_loc"]) if tree["root_loc"] is not None else None)}; '
            f'o_sys_prefix := {copt(cstr(tree["sysprefix"]) if tree["sysprefix"] is not None else None)} |}}')
    return f'run_eqb (run 12 {clist(fs)} {opts} {body_coq(tree["root_body"])}) ({clist(events)}, {out})'


# ------------------------------------------------------------------ the check
def run(tier):
    chk = core.Check(PID, tier)
    chk.assumptions = ['POSIX host (os.sep = "/"), CPython 3.12 pathlib/posixpath semantics as transliterated in Model/Url.v',
                       'the virtual file system identifies spellings of one location (./, //, name/..), as a file system or server does',
                       'debug lint of included scripts (options.debug) is not exercised; statement budgets are C09']
    proof_ok = chk.prove('Props/C17.v')
    model_ok = proof_ok or chk.model_ready(['Model/Url.vo'])

    r = core.rng('c17')
    trees = corpus_trees()
    n_ok = 700 if tier == 'quick' else 24000
    n_fail = 400 if tier == 'quick' else 12000
    for _ in range(n_ok):
        trees.append(gen_tree(r, False))
    for _ in range(n_fail):
        trees.append(gen_tree(r, True))
    payload = [impl_case(t) for t in trees]
    impl = core.run_impl('include_tree', payload, shards=core.NPROC)

    pairs = ufr_pairs(r, 1500 if tier == 'quick' else 50000)
    ufr = core.run_impl('include_tree', [{'ufr': [b, u]} for b, u, _ in pairs], shards=4)

    # ---- direct oracle on the include trees
    dist = {}
    nontrivial = 0
    depth_hist = {}
    outcomes = {'done': 0, 'runtime': 0, 'parser': 0}
    for tree, got in zip(trees, impl):
        for f in tree['features']:
            dist[f] = dist.get(f, 0) + 1
        bad = check_tree(tree, got)
        exp = c17_ref.ref_run(tree['files'], tree['root_body'], tree['root_loc'], tree['sysprefix'], tree['have_fetch'])
        outcomes['done' if exp['fail'] is None else exp['fail'][0]] += 1
        nf = len(exp['fetched'])
        depth_hist[min(nf, 20)] = depth_hist.get(min(nf, 20), 0) + 1
        if nf >= 4:
            nontrivial += 1
        for cls, detail in bad[:2]:
            chk.oracle_fail.append({'class': cls, 'input': {k: tree[k] for k in ('root_loc', 'sysprefix', 'have_fetch', 'root_body', 'files')},
                                    'detail': detail, 'source': impl_case(tree)['root']})
    # ---- direct oracle: the shipped includes through the CLI fetcher (`include <x.bare>`; x.bare itself includes siblings by
    #      plain relative paths, which must resolve against x.bare's own resolved location under the system prefix)
    inc_dir = os.path.join(core.REPO, 'src', 'bare_script', 'include')
    shipped = {}
    for path in sorted(glob.glob(os.path.join(inc_dir, '*.bare'))):
        with open(path, encoding='utf-8') as fh:
            body = []
            for ln in fh.read().split('\n'):
                m1 = re.match(r"^include\s+'([^']*)'\s*$", ln)
                m2 = re.match(r'^include\s+<([^>]*)>\s*$', ln)
                if m1 or m2:
                    body.append(['include', [[(m1 or m2).group(1), bool(m2)]]])
            shipped[os.path.basename(path)] = body
    cli_names = sorted(shipped)
    cli = core.run_impl('include_tree', [{'cli_root': f'include <{n}>\n'} for n in cli_names], shards=1) if cli_names else []
    n_cli_nested = 0
    for name, got in zip(cli_names, cli):
        prefix = got.get('prefix')
        if not isinstance(prefix, str):
            chk.oracle_fail.append({'class': 'cli-include-failed', 'input': {'include': name}, 'got': got, 'source': f'include <{name}>'})
            continue
        files = {c17_ref.canon(prefix + n): {'body': b} for n, b in shipped.items()}
        exp = c17_ref.ref_run(files, [['include', [[name, True]]]], None, prefix)
        got_locs = [c17_ref.canon(u) for u in got.get('fetched', [])]
        n_cli_nested += 1 if len(exp['fetched']) > 1 else 0
        if got.get('exc') is not None or got_locs != exp['fetched'] or exp['fail'] is not None:
            chk.oracle_fail.append({'class': 'cli-include-fetch-sequence', 'input': {'include': name}, 'expected_locations': exp['fetched'],
                                    'got': got, 'source': f'include <{name}>'})

    # ---- direct oracle on url_file_relative: the resolved LOCATION is the one the property prescribes (path-like inputs only)
    n_ufr_oracle = 0
    for (b, u, tag), got in zip(pairs, ufr):
        if 'ok' not in got:
            chk.oracle_fail.append({'class': 'url_file_relative-raises', 'input': {'base': b, 'url': u}, 'got': got,
                                    'source': f'url_file_relative({b!r}, {u!r})'})
            continue
        if u == '' or '\n' in b + u or u.endswith('/') or u.startswith('//') or b.startswith('//') or u in ('.', '..') \
                or u.endswith('/.') or u.endswith('/..'):
            continue        # not a file reference / spellings whose meaning the property does not fix
        n_ufr_oracle += 1
        exp = c17_ref.resolve(b, u)
        if c17_ref.canon(got['ok']) != exp:
            chk.oracle_fail.append({'class': 'url_file_relative-wrong-location', 'input': {'base': b, 'url': u}, 'expected_location': exp,
                                    'got': got['ok'], 'source': f'url_file_relative({b!r}, {u!r})'})

    # ---- correspondence inside Coq
    corr_n = 0
    if model_ok:
        terms = []
        meta = []
        for (b, u, tag), got in zip(pairs, ufr):
            if 'ok' in got:
                terms.append(f'option_eqb str_eqb (url_file_relative {cstr(b)} {cstr(u)}) (Some {cstr(got["ok"])})')
            else:
                terms.append('false')
            meta.append(('ufr', (b, u), got))
        budget = 500 if tier == 'quick' else 9000
        idxs = [i for i, t in enumerate(trees) if t['have_fetch']]
        if len(idxs) > budget:
            idxs = list(range(len(corpus_trees()))) + sorted(r.sample(idxs[len(corpus_trees()):], budget))
        for i in idxs:
            terms.append(tree_term(trees[i], impl[i]))
            meta.append(('tree', i, None))
        bad, errors = core.coq_bools('c17', 'Model.Base Model.Url', terms, shard=150)
        corr_n = len(terms)
        for k, log in errors:
            chk.corr_fail.append({'class': 'case-file-did-not-evaluate', 'shard': k, 'log': log[-800:]})
        for bi in bad[:12]:
            kind, x, got = meta[bi]
            if kind == 'ufr':
                shown = core.coq_show('c17', 'Model.Base Model.Url', f'url_file_relative {cstr(x[0])} {cstr(x[1])}')
                chk.corr_fail.append({'class': 'model-differs:url_file_relative', 'input': {'base': x[0], 'url': x[1]}, 'impl': got, 'model': shown[-600:]})
            else:
                t = trees[x]
                chk.corr_fail.append({'class': 'model-differs:include-tree', 'input': {k: t[k] for k in ('root_loc', 'sysprefix', 'root_body', 'files')},
                                      'impl': {k: impl[x].get(k) for k in ('events', 'exc')}, 'term': terms[bi][:3000]})
        if len(bad) > 12:
            chk.corr_fail.append({'class': 'model-differs', 'more': len(bad) - 12})

    # ---- the command-line interface on several scripts: each script's includes resolve against ITS OWN location (a file script:
    #      its directory; an inline -c script: the working directory), whatever ran before it in the same invocation
    H = lambda tag: f"systemLog('{tag}')\n"     # noqa: E731
    cli_files = {'helper.bare': H('cwd helper'), 'lib/helper.bare': H('lib helper'), 'lib/first.bare': "include 'helper.bare'\n" + H('first'),
                 'other/helper.bare': H('other helper'), 'other/second.bare': "include 'helper.bare'\n" + H('second'),
                 'lib/deep/third.bare': "include '../helper.bare'\n" + H('third')}
    inline = "include 'helper.bare'\nsystemLog('inline')"
    cli_cases = [
        (['lib/first.bare', '-c', inline], ['lib helper', 'first', 'cwd helper', 'inline']),
        (['-c', inline, 'lib/first.bare'], ['cwd helper', 'inline', 'lib helper', 'first']),
        (['lib/first.bare', 'other/second.bare', '-c', inline], ['lib helper', 'first', 'other helper', 'second', 'cwd helper', 'inline']),
        (['lib/deep/third.bare', 'other/second.bare', '-c', inline], ['lib helper', 'third', 'other helper', 'second', 'cwd helper', 'inline']),
        (['-c', inline, '-c', inline], ['cwd helper', 'inline', 'cwd helper', 'inline']),
    ]
    cli_out = core.run_impl('cli_multi', [{'files': cli_files, 'argv': argv} for argv, _ in cli_cases], shards=1)
    for (argv, want), got in zip(cli_cases, cli_out):
        if got.get('out') != want or got.get('status') not in (0, None):
            chk.oracle_fail.append({'class': 'cli-include-not-resolved-against-its-own-script', 'source': ' '.join(argv), 'input': {'argv': argv, 'files': cli_files},
                                    'expected': want, 'got': got})

    chk.coverage = {
        'cli_invocations': len(cli_cases),
        'evaluations': len(trees) + len(pairs) + len(cli_names),
        'distinct_nontrivial': nontrivial,
        'rule': '+ round 7: every tree is run a second time with the SAME options object (same fetches, logs, outcome); include trees (depth <= 4, fan-out <= 3, <= 45 include entries) over a dict-backed fetchFn: URL / relative / absolute path / '
                'no root location; system prefixes (none, relative, absolute, URL, the CLI prefix, without trailing slash); references with '
                'sub-directories, ./, //, ../, absolute paths, absolute URLs, system includes; adjacent (merged) include lines, includes inside '
                'function bodies, return inside included scripts, shared files; one planted failure (missing / raising fetch / broken text) in '
                'a third of the trees; plus (base, url) pairs for url_file_relative; non-trivial = >= 4 fetches expected',
        'exhaustive': False,
        'distribution': dict(sorted(dist.items())), 'expected_outcomes': outcomes,
        'fetches_per_tree_hist': dict(sorted(depth_hist.items())),
        'cli_system_includes': len(cli_names), 'cli_system_includes_with_nested_include': n_cli_nested,
        'url_file_relative_pairs': len(pairs), 'url_file_relative_pairs_with_location_oracle': n_ufr_oracle,
        'correspondence_cases': corr_n,
        'samples': [{'root': payload[i]['root'], 'root_loc': trees[i]['root_loc'], 'sysprefix': trees[i]['sysprefix'],
                     'fetched': impl[i].get('fetched'), 'exc': impl[i].get('exc')} for i in (0, 1, 7, len(trees) - 1) if i < len(trees)],
    }
    return chk.finish(TRUSTED)


def replay(data):
    items = [f['input'] for f in data.get('failing_inputs', []) if isinstance(f.get('input'), dict) and 'root_body' in f['input']]
    if not items:
        print(json.dumps(data, indent=1)[:4000])
        return 0
    rc = 0
    for t in items:
        t = dict(t)
        t.setdefault('have_fetch', True)
        got = core.run_impl('include_tree', [impl_case(t)], shards=1)[0]
        bad = check_tree(t, got)
        print(json.dumps({'root': impl_case(t)['root'], 'fetched': got.get('fetched'), 'exc': got.get('exc'),
                          'verdict': [b[0] for b in bad] or 'holds'}))
        rc = rc or (1 if bad else 0)
    return rc
