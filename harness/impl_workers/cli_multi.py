"""impl worker for C17: the command-line interface run on SEVERAL scripts in one invocation.
stdin: JSON list of {"files": {relative path: text}, "argv": [...]} ; each case runs bare.main(argv) in a fresh temporary
directory (the working directory) holding the files.  stdout: JSON list of {"out": [printed lines], "status": exit status}."""
import contextlib
import io
import json
import os
import shutil
import sys
import tempfile

from bare_script.bare import main as bare_main


def run(case):
    top = tempfile.mkdtemp(prefix='c17cli_')
    cwd = os.getcwd()
    try:
        for rel, text in case['files'].items():
            path = os.path.join(top, rel)
            os.makedirs(os.path.dirname(path), exist_ok=True)
            with open(path, 'w', encoding='utf-8') as fh:
                fh.write(text)
        os.chdir(top)
        buf = io.StringIO()
        status = None
        try:
            with contextlib.redirect_stdout(buf):
                bare_main(case['argv'])
        except SystemExit as exc:
            status = exc.code
        except Exception as exc:  # pylint: disable=broad-except
            return {'exc': type(exc).__name__, 'msg': str(exc)[:300]}
        return {'out': buf.getvalue().splitlines(), 'status': status}
    finally:
        os.chdir(cwd)
        shutil.rmtree(top, ignore_errors=True)


def main():
    json.dump([run(c) for c in json.load(sys.stdin)], sys.stdout)


main()
