"""impl worker: run scripts / models / expressions on the implementation and report every observable.
stdin: JSON list of cases:
  {"text": str | "model": <canonical statements>, "globals": {name: valspec}, "max": int?, "debug": bool?, "log": bool?,
   "twice": bool?}                                   -> execute_script
  {"expr_text": str | "expr": <canonical expr>, "globals": ..., "locals": {name: valspec}|null, "builtins": bool}   -> evaluate_expression
value specs (aliasing through ids): ["null"] ["bool",b] ["int",str] ["flt",hex] ["str",s] ["date",us] ["arr",id,[..]] ["obj",id,[[k,v]..]]
  ["ref",id] ["regex"] ["hostfn", kind]
results: {"res": tree | "rt": msg | "parse": [...] | "host": type, "log": [...], "globals": [[k, tree]...], "count": n, ...}"""
import copy
import datetime
import json
import re
import signal
import sys

from bare_script import parse_script, execute_script, evaluate_expression, parse_expression
from bare_script.library import SCRIPT_FUNCTIONS
from bare_script.parser import BareScriptParserError
from bare_script.runtime import BareScriptRuntimeError

EPOCH = datetime.datetime(1, 1, 1)


def build(spec, pool):
    k = spec[0]
    if k == 'null':
        return None
    if k == 'bool':
        return bool(spec[1])
    if k == 'int':
        return int(spec[1], 0)
    if k == 'flt':
        return float.fromhex(spec[1])
    if k == 'str':
        return spec[1]
    if k == 'date':
        return EPOCH + datetime.timedelta(microseconds=int(spec[1]))
    if k == 'awaredate':          # a timezone-aware datetime supplied by the host
        return datetime.datetime.fromisoformat(spec[1])
    if k == 'dateonly':           # a plain datetime.date supplied by the host
        return datetime.date.fromisoformat(spec[1])
    if k == 'arr':
        a = []
        pool[spec[1]] = a
        a.extend(build(x, pool) for x in spec[2])
        return a
    if k == 'obj':
        o = {}
        pool[spec[1]] = o
        for kk, vv in spec[2]:
            o[kk] = build(vv, pool)
        return o
    if k == 'ref':
        return pool[spec[1]]
    if k == 'regex':
        return re.compile('a')
    if k == 'hostfn':
        kind = spec[1]
        if kind == 'raise_zero':
            return lambda args, options: 1 // 0
        if kind == 'raise_key':
            return lambda args, options: {}['missing']
        if kind == 'raise_type':
            return lambda args, options: len(5)
        if kind == 'raise_value':
            return lambda args, options: int('x')
        if kind == 'raise_empty':           # an exception without any message text
            def _empty(args, options):
                raise RuntimeError()
            return _empty
        if kind == 'raise_multiline':
            def _multi(args, options):
                raise RuntimeError('first line\nsecond line')
            return _multi
        if kind == 'raise_assert':
            def _assert(args, options):
                assert args is None
            return _assert
        if kind == 'raise_nonascii':
            def _na(args, options):
                raise KeyError('cl\u00e9 \u2603')
            return _na
        if kind == 'raise_runtime':
            def _rt(args, options):
                raise BareScriptRuntimeError('host says no')
            return _rt
        if kind == 'first':
            return lambda args, options: args[0] if args else None
        if kind == 'count':
            return lambda args, options: len(args)
        raise ValueError(kind)
    raise ValueError(k)


def tree(v, depth=0):
    if depth > 60:
        return ['deep']
    if v is None:
        return ['null']
    if isinstance(v, bool):
        return ['bool', v]
    if isinstance(v, int):
        return ['int', str(v)] if abs(v) < 10 ** 300 else ['int', hex(v)]
    if isinstance(v, float):
        return ['flt', v.hex()]
    if isinstance(v, str):
        return ['str', v]
    if isinstance(v, datetime.datetime):
        if v.tzinfo is not None:
            return ['awaredate', v.isoformat()]
        return ['date', str((v - EPOCH) // datetime.timedelta(microseconds=1))]
    if isinstance(v, datetime.date):
        return ['dateonly', v.isoformat()]
    if isinstance(v, list):
        return ['arr', [tree(x, depth + 1) for x in v]]
    if isinstance(v, dict):
        return ['obj', [[k, tree(v[k], depth + 1)] for k in sorted(v, key=lambda s: [ord(c) for c in s] if isinstance(s, str) else [])]]
    if callable(v):
        return ['fun']
    if isinstance(v, re.Pattern):
        return ['regex']
    return ['unknown', type(v).__name__]


def uncanon_expr(t):
    k = t[0]
    if k == 'num':
        return {'number': float.fromhex(t[1])}
    if k == 'int':
        return {'number': int(t[1])}
    if k == 'str':
        return {'string': t[1]}
    if k == 'var':
        return {'variable': t[1]}
    if k == 'call':
        return {'function': {'name': t[1], 'args': [uncanon_expr(a) for a in t[2]]}}
    if k == 'bin':
        return {'binary': {'op': t[1], 'left': uncanon_expr(t[2]), 'right': uncanon_expr(t[3])}}
    if k == 'un':
        return {'unary': {'op': t[1], 'expr': uncanon_expr(t[2])}}
    if k == 'group':
        return {'group': uncanon_expr(t[1])}
    raise ValueError(k)


def uncanon_stmt(s):
    k = s[0]
    if k == 'expr':
        d = {'expr': uncanon_expr(s[2])}
        if s[1] is not None:
            d['name'] = s[1]
        return {'expr': d}
    if k == 'jump':
        d = {'label': s[1]}
        if s[2] is not None:
            d['expr'] = uncanon_expr(s[2])
        return {'jump': d}
    if k == 'return':
        return {'return': {'expr': uncanon_expr(s[1])} if s[1] is not None else {}}
    if k == 'label':
        return {'label': s[1]}
    if k == 'function':
        d = {'name': s[1], 'statements': [uncanon_stmt(x) for x in s[5]]}
        if s[2] is not None:
            d['args'] = list(s[2])
        if s[3]:
            d['async'] = True
        if s[4]:
            d['lastArgArray'] = True
        return {'function': d}
    if k == 'include':
        return {'include': {'includes': [dict(url=u, **({'system': True} if sy else {})) for u, sy in s[1]]}}
    raise ValueError(k)


def visible_globals(g):
    out = []
    for k in sorted(g, key=lambda s: [ord(c) for c in s]):
        if k in SCRIPT_FUNCTIONS and g[k] is SCRIPT_FUNCTIONS[k]:
            continue
        out.append([k, tree(g[k])])
    return out


def run_case(case):
    pool = {}
    globals_ = {k: build(v, pool) for k, v in case.get('globals', {}).items()}
    log = []
    options = {'globals': globals_}
    if case.get('log', True):
        options['logFn'] = log.append
    if 'max' in case:
        options['maxStatements'] = case['max']
    if case.get('debug'):
        options['debug'] = True
    fetched = []
    if 'files' in case:
        files = case['files']

        def fetch_fn(request):
            fetched.append(request['url'])
            text = files.get(request['url'])
            if isinstance(text, dict):          # {'raise': ...}: a throwing fetch function
                raise OSError(text.get('raise', 'fetch failed'))
            return text
        options['fetchFn'] = fetch_fn
    if 'systemPrefix' in case:
        options['systemPrefix'] = case['systemPrefix']
    res = {}
    if case.get('want_model'):
        sys.path.insert(0, __import__('os').path.dirname(__file__))
        from parse_script import cstmt   # noqa: E402  (same canonical form as the parse_script worker)
        try:
            res['model'] = [cstmt(s) for s in parse_script(case['text'])['statements']]
        except Exception as exc:  # pylint: disable=broad-except
            res['model_error'] = type(exc).__name__
        res['file_models'] = {}
        for url, text in case.get('files', {}).items():
            if isinstance(text, str):
                try:
                    res['file_models'][url] = [cstmt(s) for s in parse_script(text)['statements']]
                except Exception as exc:  # pylint: disable=broad-except
                    res['file_models'][url] = {'error': type(exc).__name__}
    try:
        if 'expr' in case or 'expr_text' in case:
            expr = uncanon_expr(case['expr']) if 'expr' in case else parse_expression(case['expr_text'])
            locals_ = None if case.get('locals') is None else {k: build(v, pool) for k, v in case['locals'].items()}
            before = copy.deepcopy(expr)
            if case.get('no_options'):
                val = evaluate_expression(expr)
            else:
                val = evaluate_expression(expr, options, locals_, case.get('builtins', True))
            res['res'] = tree(val)
            res['model_mutated'] = before != expr
        else:
            script = {'statements': [uncanon_stmt(s) for s in case['model']]} if 'model' in case else parse_script(case['text'])
            before = copy.deepcopy(script)
            try:
                val = execute_script(script, options)
                res['res'] = tree(val)
            finally:
                res['model_mutated'] = before != script
                if case.get('rerun_same_options'):
                    # a second run with the SAME options object (fresh globals, fresh log): the counter is reset at entry
                    pool2 = {}
                    g2 = {k: build(v, pool2) for k, v in case.get('globals', {}).items()}
                    log2 = []
                    options['globals'] = g2
                    if 'logFn' in options:
                        options['logFn'] = log2.append
                    second = {}
                    try:
                        second['res'] = tree(execute_script(script, options))
                    except BareScriptRuntimeError as exc2:
                        second['rt'] = str(exc2)
                    except Exception as exc2:  # pylint: disable=broad-except
                        second['host'] = type(exc2).__name__
                    second['log'] = [str(x) for x in log2]
                    second['count'] = options.get('statementCount')
                    res['second'] = second
    except BareScriptRuntimeError as exc:
        res['rt'] = str(exc)
    except BareScriptParserError as exc:
        res['parse'] = [exc.error, exc.line, exc.column_number, exc.line_number, str(exc)]
    except RecursionError:
        res['host'] = 'RecursionError'
    except Exception as exc:  # pylint: disable=broad-except
        res['host'] = type(exc).__name__
        res['host_msg'] = str(exc)[:200]
    res['log'] = [str(x) for x in log]
    res['globals'] = visible_globals(globals_)
    res['count'] = options.get('statementCount')
    res['fetched'] = fetched
    return res


class _Timeout(BaseException):
    pass


def _on_alarm(signum, frame):
    raise _Timeout()


def main():
    sys.setrecursionlimit(20000)
    signal.signal(signal.SIGALRM, _on_alarm)
    out = []
    for case in json.load(sys.stdin):
        signal.alarm(int(case.get('timeout', 30)))
        try:
            r = run_case(case)
        except _Timeout:
            r = {'host': 'DidNotTerminate', 'host_msg': 'no result within the per-case time limit', 'log': [], 'globals': [], 'count': None}
        finally:
            signal.alarm(0)
        if case.get('twice'):
            r2 = run_case(case)
            r['repeat_same'] = all(r.get(k) == r2.get(k) for k in ('res', 'rt', 'parse', 'host', 'log', 'globals', 'count'))
        out.append(r)
    json.dump(out, sys.stdout)


main()
