"""impl worker: every built-in expression alias behaves exactly as the library function it is documented to alias.
stdin: [{"seed": int, "n": samples per alias}] -> [{"checked": k, "failures": [...]}]"""
import datetime
import json
import math
import random
import sys

from bare_script import evaluate_expression
from bare_script.library import EXPRESSION_FUNCTION_MAP, SCRIPT_FUNCTIONS
from bare_script.runtime import BareScriptRuntimeError

NONDET = {'now', 'today', 'rand'}


def same(a, b):
    if isinstance(a, float) and isinstance(b, float) and math.isnan(a) and math.isnan(b):
        return True
    if type(a) is not type(b):
        return False
    if isinstance(a, list):
        return len(a) == len(b) and all(same(x, y) for x, y in zip(a, b))
    if isinstance(a, dict):
        return a.keys() == b.keys() and all(same(a[k], b[k]) for k in a)
    return a == b


def call(name, nargs, globals_, builtins=True, locals_=None):
    expr = {'function': {'name': name, 'args': [{'variable': f'x{i}'} for i in range(nargs)]}}
    log = []
    try:
        return ('ok', evaluate_expression(expr, {'globals': globals_, 'logFn': log.append, 'debug': True}, locals_, builtins), len(log))
    except BareScriptRuntimeError as exc:
        return ('rt', str(exc), len(log))
    except Exception as exc:  # pylint: disable=broad-except
        return ('host', type(exc).__name__, len(log))


def call_noopt(name, nargs, locals_):
    """the same call with NO options object at all (evaluate_expression(expr, None, locals)): same value, same failure value"""
    expr = {'function': {'name': name, 'args': [{'variable': f'x{i}'} for i in range(nargs)]}}
    try:
        return ('ok', evaluate_expression(expr, None, locals_, True), 0)
    except BareScriptRuntimeError as exc:
        return ('rt', str(exc), 0)
    except Exception as exc:  # pylint: disable=broad-except
        return ('host', type(exc).__name__, 0)


def main():
    spec = json.load(sys.stdin)[0]
    r = random.Random(spec['seed'])
    pool = [None, True, 0.0, 1.0, -2.5, 3, 16.0, 'abc', ' Ab ', '', '12', datetime.datetime(2024, 2, 29, 13, 5, 6, 7000), [1.0, 2.0], {'a': 1.0}, 2.0, 1e3]
    failures, checked = [], 0
    for alias, target in EXPRESSION_FUNCTION_MAP.items():
        if alias in NONDET:
            continue
        for _ in range(spec['n']):
            nargs = r.choice([0, 1, 1, 2, 2, 3])
            args = {f'x{i}': r.choice(pool) for i in range(nargs)}
            ga = dict(args)
            gt = dict(args)
            gt[target] = SCRIPT_FUNCTIONS[target]
            ra = call(alias, nargs, ga)
            rt = call(target, nargs, gt)
            rn0 = call_noopt(alias, nargs, dict(args))
            if rn0[0] != ra[0] or (ra[0] == 'ok' and not same(rn0[1], ra[1])):
                failures.append({'alias': alias, 'target': target, 'args': repr(args)[:300] + ' (no options object)', 'alias_result': repr(rn0)[:300],
                                 'target_result': repr(ra)[:300]})
            checked += 1
            if ra[0] != rt[0] or (ra[0] == 'ok' and not same(ra[1], rt[1])) or (ra[0] != 'ok' and ra[1] != rt[1] and ra[0] != 'rt'):
                failures.append({'alias': alias, 'target': target, 'args': repr(args)[:300], 'alias_result': repr(ra)[:300], 'target_result': repr(rt)[:300]})
        # a name bound in globals or locals always wins over the built-in
        marker = lambda a, o: 'shadow'      # noqa: E731
        rs = call(alias, 0, {alias: marker})
        rl = call(alias, 0, {}, True, {alias: marker})
        # ... and in script mode (builtins off) the alias is not defined at all
        rn = call(alias, 0, {}, False)
        checked += 3
        if rs[:2] != ('ok', 'shadow') or rl[:2] != ('ok', 'shadow'):
            failures.append({'alias': alias, 'target': target, 'args': 'shadowed by a global / local binding', 'alias_result': repr((rs, rl))})
        if rn[0] != 'rt' or 'Undefined function' not in rn[1]:
            failures.append({'alias': alias, 'target': target, 'args': 'script mode (builtins=False)', 'alias_result': repr(rn)})
    json.dump([{'checked': checked, 'failures': failures[:50]}], sys.stdout)


main()
