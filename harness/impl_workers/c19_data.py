"""impl worker for C19: the data functions, through the exported Python functions ("api") and through real scripts ("script").

stdin: JSON list of cases.  A case:
  {"op": "filter"|"calc"|"sort"|"top"|"aggregate"|"join"|"csv"|"validate", "mode": "api"|"script", ...}
  tables are lists of rows, a row is a list of [field, value spec]
  value specs: ["null"] ["bool",b] ["int","dec"] ["float","hex"] ["str",s] ["naive",y,m,d,H,M,S,us]
  filter   : table, expr, variables (row or null)
  calc     : table, field, expr, variables
  sort     : table, sorts ([[field] | [field, desc]])
  top      : table, count (value spec), cats (list or null)
  aggregate: table, aggregation (JSON object)
  join     : table, right, expr, rexpr (or null), left_join (bool or null = omitted), variables
  csv      : parts (list of strings or null)
  validate : table, csv (bool)
Result: {"out": table spec (rows as [[field, spec]...]), "ident": [index of the input row each output row IS, or -1],
         "same_list": bool, "input_after": table spec, "right_after": ...}  or {"exc": type name, "msg": str}
In script mode the table is BUILT BY THE SCRIPT from literals (numbers are float literals, strings are string literals or
globals, datetimes datetimeNew(...)), the call is made by the script, and identity is read off the returned objects.
"""
import datetime
import json
import math
import sys

from bare_script import execute_script, parse_script
from bare_script.data import add_calculated_field, aggregate_data, filter_data, join_data, sort_data, top_data, validate_data
from bare_script.library import SCRIPT_FUNCTIONS


def build(s):
    k = s[0]
    if k == 'null':
        return None
    if k == 'bool':
        return bool(s[1])
    if k == 'int':
        return int(s[1])
    if k == 'float':
        return float.fromhex(s[1])
    if k == 'str':
        return s[1]
    if k == 'naive':
        return datetime.datetime(*s[1:8])
    if k == 'arr':
        return [build(x) for x in s[1]]
    if k == 'obj':
        return {kk: build(v) for kk, v in s[1]}
    raise ValueError(k)


def dump(v):
    if v is None:
        return ['null']
    if isinstance(v, bool):
        return ['bool', v]
    if isinstance(v, int):
        return ['int', str(v)]
    if isinstance(v, float):
        return ['float', v.hex()]
    if isinstance(v, str):
        return ['str', v]
    if isinstance(v, datetime.datetime):
        if v.tzinfo is not None:
            return ['aware', v.isoformat()]
        return ['naive', v.year, v.month, v.day, v.hour, v.minute, v.second, v.microsecond]
    if isinstance(v, datetime.date):
        return ['date', v.year, v.month, v.day]
    if isinstance(v, list):
        return ['arr', [dump(x) for x in v]]
    if isinstance(v, dict):
        return ['obj', [[k if isinstance(k, str) else ['nonstr', repr(k)], dump(x)] for k, x in v.items()]]
    return ['other', type(v).__name__]


def build_table(t):
    return [{f: build(v) for f, v in row} for row in t]


def dump_table(t):
    if not isinstance(t, list):
        return ['notalist', dump(t)]
    out = []
    for row in t:
        if isinstance(row, dict):
            out.append([[k if isinstance(k, str) else ['nonstr', repr(k)], dump(v)] for k, v in row.items()])
        else:
            out.append(['notarow', dump(row)])
    return out


def ident(out, inp):
    if not isinstance(out, list):
        return []
    return [next((j for j, r in enumerate(inp) if r is o), -1) for o in out]


# ---------------------------------------------------------------- script text
def simple_str(s):
    return all(32 <= ord(c) < 127 for c in s)


class Lit:
    def __init__(self):
        self.globals = {}

    def s(self, text):
        if simple_str(text):
            return "'" + text.replace('\\', '\\\\').replace("'", "\\'") + "'"
        name = f'g{len(self.globals)}'
        self.globals[name] = text
        return name

    def num(self, x):
        if x != x or x in (float('inf'), float('-inf')):
            raise ValueError('no literal')
        if x == math.floor(x) and abs(x) < 1e15:
            t = str(int(x))
            if t == '0' and math.copysign(1.0, x) < 0:
                return '(0 * -1)'
            return t if x >= 0 else f'(0 - {t[1:]})'
        r = repr(abs(float(x)))
        if 'e' in r and '.' not in r.split('e')[0]:
            r = r.replace('e', '.0e')
        if 'e' in r:
            m, e = r.split('e')
            if e[0] not in '+-':
                e = '+' + e
            r = m + 'e' + e
        return r if x >= 0 else f'(0 - {r})'

    def v(self, spec):
        k = spec[0]
        if k == 'null':
            return 'null'
        if k == 'bool':
            return 'true' if spec[1] else 'false'
        if k == 'int':
            return self.num(float(int(spec[1])))
        if k == 'float':
            return self.num(float.fromhex(spec[1]))
        if k == 'str':
            return self.s(spec[1])
        if k == 'naive':
            y, mo, d, h, mi, sec, us = spec[1:8]
            return f'datetimeNew({y}, {mo}, {d}, {h}, {mi}, {sec}, {us // 1000})'
        if k == 'arr':
            return 'arrayNew(' + ', '.join(self.v(x) for x in spec[1]) + ')'
        if k == 'obj':
            return 'objectNew(' + ', '.join(self.s(kk) + ', ' + self.v(x) for kk, x in spec[1]) + ')'
        raise ValueError(k)

    def row(self, row):
        return 'objectNew(' + ', '.join(self.s(f) + ', ' + self.v(v) for f, v in row) + ')'

    def table(self, t):
        return 'arrayNew(' + ', '.join(self.row(r) for r in t) + ')'


def run_script(text, globals_):
    return execute_script(parse_script(text), {'globals': dict(globals_)})


def script_case(c):
    L = Lit()
    op = c['op']
    lines = ['t = ' + L.table(c['table'])]
    var = 'null' if c.get('variables') is None else L.row(c['variables'])
    if op == 'filter':
        call = f"dataFilter(t, {L.s(c['expr'])}" + (f', {var})' if c.get('variables') is not None else ')')
    elif op == 'calc':
        call = f"dataCalculatedField(t, {L.s(c['field'])}, {L.s(c['expr'])}" + (f', {var})' if c.get('variables') is not None else ')')
    elif op == 'sort':
        sorts = 'arrayNew(' + ', '.join('arrayNew(' + ', '.join([L.s(s[0])] + [L.v(x) for x in s[1:]]) + ')' for s in c['sorts']) + ')'
        call = f'dataSort(t, {sorts})'
    elif op == 'top':
        cats = '' if c.get('cats') is None else ', arrayNew(' + ', '.join(L.s(x) for x in c['cats']) + ')'
        call = f"dataTop(t, {L.v(c['count'])}{cats})"
    elif op == 'aggregate':
        a = c['aggregation']
        parts = []
        if 'categories' in a:
            parts.append("'categories', arrayNew(" + ', '.join(L.s(x) for x in a['categories']) + ')')
        ms = []
        for m in a['measures']:
            kv = [f"'field', {L.s(m['field'])}", f"'function', {L.s(m['function'])}"]
            if 'name' in m:
                kv.append(f"'name', {L.s(m['name'])}")
            ms.append('objectNew(' + ', '.join(kv) + ')')
        parts.append("'measures', arrayNew(" + ', '.join(ms) + ')')
        call = 'dataAggregate(t, objectNew(' + ', '.join(parts) + '))'
    elif op == 'join':
        lines.append('u = ' + L.table(c['right']))
        args = ['t', 'u', L.s(c['expr'])]
        tail = [None if c.get('rexpr') is None else L.s(c['rexpr']),
                None if c.get('left_join') is None else ('true' if c['left_join'] else 'false'),
                None if c.get('variables') is None else var]
        while tail and tail[-1] is None:
            tail.pop()
        args += ['null' if x is None else x for x in tail]
        call = 'dataJoin(' + ', '.join(args) + ')'
    else:
        raise ValueError(op)
    lines.append('r = ' + call)
    lines.append("return arrayNew(r, t" + (', u)' if op == 'join' else ')'))
    text = '\n'.join(lines) + '\n'
    res = run_script(text, L.globals)
    out, t = res[0], res[1]
    d = {'out': dump_table(out) if isinstance(out, list) else dump(out), 'is_list': isinstance(out, list),
         'ident': ident(out, t), 'same_list': out is t, 'input_after': dump_table(t), 'source': text, 'globals': L.globals}
    if op == 'join':
        d['right_after'] = dump_table(res[2])
        d['ident_right'] = ident(out, res[2])
    return d


def api_case(c):
    op = c['op']
    t = build_table(c['table'])
    variables = None if c.get('variables') is None else {f: build(v) for f, v in c['variables']}
    u = None
    if op == 'filter':
        out = filter_data(t, c['expr'], variables)
    elif op == 'calc':
        out = add_calculated_field(t, c['field'], c['expr'], variables)
    elif op == 'sort':
        out = sort_data(t, [[s[0]] + [build(x) for x in s[1:]] for s in c['sorts']])
    elif op == 'top':
        out = top_data(t, build(c['count']), c.get('cats'))
    elif op == 'aggregate':
        out = aggregate_data(t, c['aggregation'])
    elif op == 'join':
        u = build_table(c['right'])
        kw = {}
        if c.get('left_join') is not None:
            kw['is_left_join'] = c['left_join']
        out = join_data(t, u, c['expr'], c.get('rexpr'), variables=variables, **kw)
    else:
        raise ValueError(op)
    d = {'out': dump_table(out) if isinstance(out, list) else dump(out), 'is_list': isinstance(out, list),
         'ident': ident(out, t), 'same_list': out is t, 'input_after': dump_table(t)}
    if u is not None:
        d['right_after'] = dump_table(u)
        d['ident_right'] = ident(out, u)
    return d


def csv_case(c):
    parts = c['parts']
    if c['mode'] == 'script':
        names = [f'p{i}' for i in range(len(parts))]
        text = 'return dataParseCSV(' + ', '.join(names) + ')\n'
        out = run_script(text, dict(zip(names, parts)))
    else:
        out = SCRIPT_FUNCTIONS['dataParseCSV'](list(parts), None)
    return {'out': dump_table(out) if isinstance(out, list) else dump(out), 'is_list': isinstance(out, list)}


def validate_case(c):
    t = build_table(c['table'])
    try:
        types = validate_data(t, c.get('csv', False))
    except TypeError as exc:
        return {'type_error': str(exc), 'input_after': dump_table(t)}
    return {'types': [[k, v] for k, v in types.items()], 'out': dump_table(t)}


def main():
    cases = json.load(sys.stdin)
    res = []
    for c in cases:
        try:
            if c['op'] == 'csv':
                res.append(csv_case(c))
            elif c['op'] == 'validate':
                res.append(validate_case(c))
            elif c['mode'] == 'script':
                res.append(script_case(c))
            else:
                res.append(api_case(c))
        except Exception as exc:  # pylint: disable=broad-except
            res.append({'exc': type(exc).__name__, 'msg': str(exc)[:300]})
    json.dump(res, sys.stdout)


main()
