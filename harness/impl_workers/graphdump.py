"""graphdump.py - canonical dump of the object graph reachable from a list of values.

Containers (Python lists / dicts) are numbered in breadth-first discovery order (the listed values first, then the
cells in id order), so two states are equal up to aliasing iff their dumps are equal.  Cycles are fine.
Used by the implementation worker (real values) and by the harness (reference values): `classify` maps a value to
  ('null',) ('bool', b) ('int', n) ('flt', x) ('str', s) ('date', us) ('fn',) ('regex',) ('arr', list) ('obj', dict) ('unknown', text)
"""


def dump(values, classify):
    ids = {}
    queue = []

    def enc(v):
        c = classify(v)
        k = c[0]
        if k in ('arr', 'obj'):
            key = id(c[1])
            if key not in ids:
                ids[key] = len(ids)
                queue.append(c)
            return ['a' if k == 'arr' else 'o', ids[key]]
        if k == 'flt':
            return ['f', float(c[1]).hex()]
        if k == 'int':
            return ['i', str(c[1])]
        return list(c)
    out_vars = [enc(v) for v in values]
    cells = []
    i = 0
    while i < len(queue):
        k, obj = queue[i]
        if k == 'arr':
            cells.append(['A', [enc(x) for x in obj]])
        else:
            cells.append(['O', [[key, enc(val)] for key, val in obj.items()]])
        i += 1
    return {'vars': out_vars, 'cells': cells}
