"""impl worker for C16: datetime tasks run through the public script API under a given process time zone.

stdin: JSON list of tasks, each {"k": kind, "tz": zone name, ...}; stdout: JSON list of results (same order).
The process time zone is switched with os.environ['TZ'] + time.tzset() whenever a task names another zone.

kinds
  new   {"args": [y, mo, d, h, mi, s, ms], "lit": bool}   datetimeNew through a script (literals or globals), getters, ISO format,
                                                          parse-back, difference; plus the zone facts of the result taken from
                                                          Python's own datetime (NOT from the code under test)
  wall  {"us": int}                                       the same battery for a given naive datetime value (passed as a global)
  add   {"args": [...], "n": number}                      d + n, n + d, (d + n) - d, d - (d + n)
  parse {"text": str, "u": int | null}                    datetimeISOParse through a script and value_parse_datetime directly;
                                                          off_utc at the UTC instant u (microseconds) if given
  msget {"us": [int...]}                                  datetimeMillisecond for microsecond values 0..999999
"""
import datetime
import json
import os
import sys
import time

from bare_script import execute_script, parse_script
from bare_script.value import value_parse_datetime
from bare_script.library import SCRIPT_FUNCTIONS

EPOCH = datetime.datetime(1970, 1, 1)
US = datetime.timedelta(microseconds=1)
UTC = datetime.timezone.utc

BODY = '''
if d == null:
    return null
endif
s = datetimeISOFormat(d)
p = if(s != null, datetimeISOParse(s), null)
sd = datetimeISOFormat(d, true)
pd = if(sd != null, datetimeISOParse(sd), null)
return arrayNew(d, arrayNew(datetimeYear(d), datetimeMonth(d), datetimeDay(d), datetimeHour(d), datetimeMinute(d), \\
    datetimeSecond(d), datetimeMillisecond(d)), s, p, if(p != null, p - d, null), sd, pd, '' + d)
'''
SCRIPT_GLOBAL_ARGS = parse_script('d = datetimeNew(a0, a1, a2, a3, a4, a5, a6)\n' + BODY)
SCRIPT_WALL = parse_script(BODY)
SCRIPT_AWARE = parse_script('''
g = arrayNew(datetimeYear(d), datetimeMonth(d), datetimeDay(d), datetimeHour(d), datetimeMinute(d), datetimeSecond(d), datetimeMillisecond(d))
back = datetimeNew(datetimeYear(d), datetimeMonth(d), datetimeDay(d), datetimeHour(d), datetimeMinute(d), datetimeSecond(d), datetimeMillisecond(d))
return arrayNew(g, back - d, d - back)
''')
SCRIPT_ADD = parse_script('''
d = datetimeNew(a0, a1, a2, a3, a4, a5, a6)
if d == null:
    return null
endif
e = d + n
f = n + d
return arrayNew(d, e, if(e != null, e - d, null), f, if(e != null, d - e, null))
''')
SCRIPT_PARSE = parse_script('return datetimeISOParse(t)')


def to_us(d):
    return (d - EPOCH) // US


def enc(v):
    """JSON encoding of a script value: datetimes -> {"dt": us}, floats that are integral -> int, other floats -> hex"""
    if isinstance(v, datetime.datetime):
        if v.tzinfo is not None:
            return {'aware': str(v)}
        return {'dt': to_us(v)}
    if isinstance(v, datetime.date):
        return {'date': str(v)}
    if isinstance(v, bool) or v is None or isinstance(v, str):
        return v
    if isinstance(v, int):
        return v
    if isinstance(v, float):
        if v == v and abs(v) < 1e300 and v == int(v):
            return int(v)
        return {'f': v.hex()}
    if isinstance(v, list):
        return [enc(x) for x in v]
    return {'other': type(v).__name__}


def zone_facts(d):
    """what Python's own datetime says about the naive wall time d in the current process zone"""
    try:
        a = d.astimezone()
        u = a.astimezone(UTC).replace(tzinfo=None)
        o2 = a.utcoffset()
        o1 = d - u
        return {'o1_us': o1 // US, 'u': to_us(u), 'o2_us': o2 // US, 'l': to_us(a.replace(tzinfo=None))}
    except (OverflowError, ValueError, OSError) as exc:
        return {'tzerr': type(exc).__name__}


def off_utc_at(u):
    try:
        a = (EPOCH + u * US).replace(tzinfo=UTC).astimezone()
        return a.utcoffset() // US
    except (OverflowError, ValueError, OSError) as exc:
        return {'tzerr': type(exc).__name__}


def battery(res):
    if res is None:
        return {'null': True}
    if not isinstance(res, list) or len(res) != 8 or not isinstance(res[0], datetime.datetime):
        return {'weird': enc(res)}
    d = res[0]
    out = {'d': enc(d), 'get': enc(res[1]), 'iso': enc(res[2]), 'p': enc(res[3]), 'diff': enc(res[4]), 'isod': enc(res[5]),
           'pd': enc(res[6]), 'str': enc(res[7])}
    if isinstance(d, datetime.datetime) and d.tzinfo is None:
        out['zone'] = zone_facts(d)
    return out


def lit(x):
    """a number as BareScript source text"""
    return str(x) if x >= 0 else f'-{-x}'


def run_task(t):
    k = t['k']
    if k == 'new':
        args = t['args']
        if t.get('lit'):
            script = parse_script('d = datetimeNew(' + ', '.join(lit(a) for a in args) + ')\n' + BODY)
            res = execute_script(script, {})
        else:
            res = execute_script(SCRIPT_GLOBAL_ARGS, {'globals': {f'a{i}': a for i, a in enumerate(args)}})
        return battery(res)
    if k == 'wall':
        d = EPOCH + t['us'] * US
        return battery(execute_script(SCRIPT_WALL, {'globals': {'d': d}}))
    if k == 'add':
        g = {f'a{i}': a for i, a in enumerate(t['args'])}
        g['n'] = float(t['n']) if t.get('nfloat') else t['n']
        res = execute_script(SCRIPT_ADD, {'globals': g})
        return {'null': True} if res is None else {'r': enc(res)}
    if k == 'parse':
        out = {}
        try:
            out['script'] = enc(execute_script(SCRIPT_PARSE, {'globals': {'t': t['text']}}))
        except Exception as exc:  # pylint: disable=broad-except
            out['script'] = {'exc': type(exc).__name__, 'msg': str(exc)[:200]}
        try:
            out['direct'] = enc(value_parse_datetime(t['text']))
        except Exception as exc:  # pylint: disable=broad-except
            out['direct'] = {'exc': type(exc).__name__, 'msg': str(exc)[:200]}
        if t.get('u') is not None:
            out['offu_us'] = off_utc_at(t['u'])
        return out
    if k == 'aware':
        # a host-supplied AWARE datetime (instant u, fixed offset `off` minutes): every getter reads the instant normalised to the process zone
        tz = datetime.timezone(datetime.timedelta(minutes=t['off']))
        d = (EPOCH + t['us'] * US).replace(tzinfo=UTC).astimezone(tz)
        res = execute_script(SCRIPT_AWARE, {'globals': {'d': d}})
        loc = d.astimezone().replace(tzinfo=None)
        return {'r': enc(res), 'local': [loc.year, loc.month, loc.day, loc.hour, loc.minute, loc.second, loc.microsecond // 1000]}
    if k == 'msget':
        fn = SCRIPT_FUNCTIONS['datetimeMillisecond']
        base = datetime.datetime(2024, 5, 17, 13, 59, 58)
        return {'ms': [enc(fn([base.replace(microsecond=us)], None)) for us in t['us']]}
    return {'exc': 'unknown task kind'}


def main():
    tasks = json.load(sys.stdin)
    order = sorted(range(len(tasks)), key=lambda i: tasks[i].get('tz', 'UTC'))
    out = [None] * len(tasks)
    cur = None
    for i in order:
        t = tasks[i]
        tz = t.get('tz', 'UTC')
        if tz != cur:
            os.environ['TZ'] = tz
            time.tzset()
            cur = tz
        try:
            out[i] = run_task(t)
        except Exception as exc:  # pylint: disable=broad-except
            out[i] = {'exc': type(exc).__name__, 'msg': str(exc)[:300]}
    json.dump(out, sys.stdout)


main()
