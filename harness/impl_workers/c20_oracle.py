"""C20 direct oracle: the property itself, evaluated on a diffLines result.  Pure Python, no import of the
implementation.  Shared by harness/c20.py and the worker (which applies it in-process to the exhaustive family so
that a million results need not be shipped back)."""

KINDS = ('Identical', 'Add', 'Remove')


def ref_split(text):
    """the lines of a text: LF or CRLF ends a line (independent of any regex engine)"""
    return text.replace('\r\n', '\n').split('\n')


def ref_lines(inp):
    """the line list a diffLines argument stands for: a text, or an array of texts each of which is split"""
    if isinstance(inp, str):
        return ref_split(inp)
    out = []
    for part in inp:
        out.extend(ref_split(part))
    return out


def check(left, right, res):
    """-> None when the property holds for this result, else (class, detail)"""
    L = ref_lines(left)
    R = ref_lines(right)
    if not isinstance(res, dict) or 'ok' not in res:
        return ('exception-or-no-result', res)
    d = res['ok']
    if not isinstance(d, list):
        return ('result-not-a-list', d)
    for b in d:
        if not (isinstance(b, dict) and sorted(b.keys()) == ['lines', 'type'] and b['type'] in KINDS):
            return ('malformed-block', b)
        if not (isinstance(b['lines'], list) and all(isinstance(x, str) for x in b['lines'])):
            return ('malformed-block-lines', b)
        if not b['lines']:
            return ('empty-block', b)
    left_rec = [x for b in d if b['type'] != 'Add' for x in b['lines']]
    right_rec = [x for b in d if b['type'] != 'Remove' for x in b['lines']]
    if left_rec != L:
        return ('left-not-reconstructed', {'Identical+Remove': left_rec, 'left_lines': L})
    if right_rec != R:
        return ('right-not-reconstructed', {'Identical+Add': right_rec, 'right_lines': R})
    if L == R and any(b['type'] != 'Identical' for b in d):
        return ('identical-inputs-yield-add-or-remove', d)
    return None


def lists_upto(alphabet, maxlen):
    """all line lists of length <= maxlen over the alphabet, shortest first"""
    res = [[]]
    layer = [[]]
    for _ in range(maxlen):
        layer = [x + [a] for x in layer for a in alphabet]
        res += layer
    return res


def consumer_lines(diff):
    """what unittestDeepEqual reports for a diffLines result: one fenced hunk per maximal run of Remove/Add blocks"""
    lines = []
    pend = []
    for b in diff:
        if b['type'] == 'Remove':
            pend += ['--- ' + x for x in b['lines']]
        elif b['type'] == 'Add':
            pend += ['+++ ' + x for x in b['lines']]
        elif pend:
            lines += ['Deep-equal:', '', '```'] + pend + ['```']
            pend = []
    if pend:
        lines += ['Deep-equal:', '', '```'] + pend + ['```']
    return lines


def check_consumer(pairs, res):
    """-> list of (class, detail).  Equal texts: no failure entry.  Different texts: exactly one entry, in order; it is the
    rendering of the diffLines result of the same pair, and (independently of which diff was chosen) taking the `---` lines
    out of the left lines and the `+++` lines out of the right lines leaves the same multiset of lines."""
    from collections import Counter
    if not isinstance(res, dict) or not isinstance(res.get('failures'), list) or not isinstance(res.get('diffs'), list):
        return [('consumer-run-failed', res)]
    bad = []
    if len(res['diffs']) != len(pairs):
        return [('consumer-run-incomplete', {'pairs': len(pairs), 'diffs': len(res['diffs'])})]
    expected = [(a, b, d) for (a, b), d in zip(pairs, res['diffs']) if a != b]
    if len(res['failures']) != len(expected):
        return [('consumer-failure-count', {'expected': len(expected), 'got': len(res['failures'])})]
    for (a, b, d), entry in zip(expected, res['failures']):
        if check(a, b, {'ok': d}) is not None:
            bad.append(('consumer-saw-a-bad-diff', {'left': a, 'right': b, 'diff': d}))
            continue
        if entry != consumer_lines(d):
            bad.append(('consumer-report-differs-from-diff', {'left': a, 'right': b, 'expected': consumer_lines(d), 'got': entry}))
            continue
        removed = Counter(x[4:] for x in entry if x.startswith('--- '))
        added = Counter(x[4:] for x in entry if x.startswith('+++ '))
        left = Counter(ref_split(a))
        right = Counter(ref_split(b))
        if any(removed[k] > left[k] for k in removed) or any(added[k] > right[k] for k in added) or (left - removed) != (right - added):
            bad.append(('consumer-report-inconsistent-with-inputs', {'left': a, 'right': b, 'got': entry}))
    return bad
