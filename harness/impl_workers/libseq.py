"""libseq.py - run operation-sequence scripts on the implementation through the public API.
in : [{'src': script text, 'globals': {name: string}, 'fn': bool}]   the script calls snap() after every statement
out: [{'snaps': [graph dump of x0..xk after statement k], 'result': ...} | {'exc': type, 'msg': str}]
"""
import datetime
import json
import os
import re
import sys
import time

os.environ['TZ'] = 'UTC'
time.tzset()
sys.path.insert(0, os.path.dirname(os.path.abspath(__file__)))
sys.setrecursionlimit(3000)

from bare_script import execute_script, parse_script  # noqa: E402
import graphdump  # noqa: E402

REGEX_TYPE = type(re.compile(''))
EPOCH = datetime.datetime(1970, 1, 1)


def classify(v):
    if v is None:
        return ('null',)
    if isinstance(v, bool):
        return ('bool', v)
    if isinstance(v, int):
        return ('int', v)
    if isinstance(v, float):
        return ('flt', v)
    if isinstance(v, str):
        return ('str', v)
    if isinstance(v, datetime.datetime):
        d = v if v.tzinfo is None else v.astimezone(datetime.timezone.utc).replace(tzinfo=None)
        return ('date', str((d - EPOCH) // datetime.timedelta(microseconds=1)))
    if isinstance(v, list):
        return ('arr', v)
    if isinstance(v, dict):
        return ('obj', v)
    if isinstance(v, REGEX_TYPE):
        return ('regex',)
    if callable(v):
        return ('fn',)
    return ('unknown', type(v).__name__)


def run_case(case):
    snaps = []
    glob = dict(case.get('globals') or {})

    def snap(args, options):
        g = options['globals']
        n = len(snaps) + 1
        snaps.append(graphdump.dump([g.get(f'x{i}') for i in range(n)], classify))
    glob['snap'] = snap
    try:
        script = parse_script(case['src'])
        execute_script(script, {'globals': glob})
    except Exception as exc:  # pylint: disable=broad-exception-caught
        return {'exc': type(exc).__name__, 'msg': str(exc)[:300], 'snaps': snaps}
    return {'snaps': snaps}


def main():
    cases = json.load(sys.stdin)
    json.dump([run_case(c) for c in cases], sys.stdout)


if __name__ == '__main__':
    main()
