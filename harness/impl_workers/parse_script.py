"""impl worker: parse_script on each case -> canonical model / error; optional schema validation and lint.
stdin: JSON list of {"chunks": [str...] | "text": str, "as": "list"|"tuple"|"iter"|"gen" (how the chunks are handed over), "start": int?,
"validate": bool?, "lint": bool?}"""
import copy
import json
import sys

from bare_script import parse_script, validate_script, lint_script
from bare_script.parser import BareScriptParserError


def cexpr(e):
    (k, v), = e.items()
    if k == 'number':
        if isinstance(v, bool) or not isinstance(v, (int, float)):
            return ['badnum', repr(v)]
        return ['int', str(v)] if isinstance(v, int) else ['num', v.hex()]
    if k == 'string':
        return ['str', v]
    if k == 'variable':
        return ['var', v]
    if k == 'function':
        return ['call', v['name'], [cexpr(a) for a in v.get('args', [])]]
    if k == 'binary':
        return ['bin', v['op'], cexpr(v['left']), cexpr(v['right'])]
    if k == 'unary':
        return ['un', v['op'], cexpr(v['expr'])]
    if k == 'group':
        return ['group', cexpr(v)]
    return ['unknown', k]


def cstmt(s):
    (k, v), = s.items()
    if k == 'expr':
        return ['expr', v.get('name'), cexpr(v['expr'])]
    if k == 'jump':
        return ['jump', v['label'], cexpr(v['expr']) if 'expr' in v else None]
    if k == 'return':
        return ['return', cexpr(v['expr']) if 'expr' in v else None]
    if k == 'label':
        return ['label', v]
    if k == 'function':
        return ['function', v['name'], v.get('args'), bool(v.get('async')), bool(v.get('lastArgArray')), [cstmt(x) for x in v['statements']]]
    if k == 'include':
        return ['include', [[i['url'], bool(i.get('system'))] for i in v['includes']]]
    return ['unknown', k]


def _wreck(x):
    if isinstance(x, dict):
        for v in list(x.values()):
            _wreck(v)
        x.clear()
        x['wrecked'] = True
    elif isinstance(x, list):
        for v in x:
            _wreck(v)
        x.clear()


def main():
    sys.setrecursionlimit(10000)
    out = []
    for case in json.load(sys.stdin):
        src = case['chunks'] if 'chunks' in case else case['text']
        kind = case.get('as', 'list')
        if 'chunks' in case and kind == 'tuple':
            src = tuple(src)
        elif 'chunks' in case and kind == 'iter':
            src = iter(src)
        elif 'chunks' in case and kind == 'gen':
            src = (part for part in list(src))
        start = case.get('start', 1)
        res = {}
        try:
            script = parse_script(src, start) if 'start' in case else parse_script(src)
            res['ok'] = json.loads(json.dumps([cstmt(s) for s in script['statements']]))       # (a copy that shares nothing with the model)
            if case.get('twice') and kind in ('list', 'tuple'):
                # "deterministic, no state between calls": wreck the first result in place, parse the same source again
                _wreck(script)
                script2 = parse_script(src, start) if 'start' in case else parse_script(src)
                if json.loads(json.dumps([cstmt(s) for s in script2['statements']])) != res['ok']:
                    res['state_leak'] = True
                script = script2
            if case.get('validate'):
                try:
                    before = copy.deepcopy(script)
                    validate_script(script)
                    res['valid'] = True
                    res['validate_mutated'] = before != script
                except Exception as exc:  # pylint: disable=broad-except
                    res['valid'] = False
                    res['valid_error'] = f'{type(exc).__name__}: {exc}'[:300]
            if case.get('lint'):
                try:
                    res['lint'] = lint_script(script)
                except Exception as exc:  # pylint: disable=broad-except
                    res['lint_error'] = f'{type(exc).__name__}: {exc}'[:300]
        except BareScriptParserError as exc:
            res['err'] = [exc.error, exc.line, exc.column_number, exc.line_number, str(exc)]
        except Exception as exc:  # pylint: disable=broad-except
            res['host'] = type(exc).__name__
            res['host_msg'] = str(exc)[:200]
        out.append(res)
    json.dump(out, sys.stdout)


if __name__ == '__main__':
    main()
