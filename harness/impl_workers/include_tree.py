"""impl worker for C17.

stdin: JSON list of items
  {"ufr": [base, url]}  -> {"ok": url_file_relative(base, url)} | {"exc": .., "msg": ..}
  {"cli_root": text}   -> {"fetched": [raw urls], "exc": ..., "prefix": the CLI system prefix}  (fetchFn = bare._fetch_include)
  {"files": {canonical location: {"text": str} | {"raise": true}}, "root": text, "root_loc": str|null, "sysprefix": str|null,
   "have_fetch": bool, "track": [global names]}
        parse_script(root) + execute_script with a dict-backed fetchFn (looked up by c17_ref.canon of the requested url, the
        raw url is recorded), logFn, urlFn = partial(url_file_relative, root_loc) when root_loc is given, systemPrefix
     -> {"fetched": [raw urls], "logs": [...], "globals": {name: value | "<absent>"}, "events": [["fetch"|"log", text]...], "exc": null | {...}, "direct_errors": {...}}
"""
import functools
import json
import os
import sys

sys.path.insert(0, os.path.dirname(os.path.abspath(__file__)))
import c17_ref  # noqa: E402  pylint: disable=wrong-import-position

from bare_script import parse_script, execute_script, url_file_relative  # noqa: E402
from bare_script.parser import BareScriptParserError  # noqa: E402
from bare_script.runtime import BareScriptRuntimeError  # noqa: E402


def jsonable(v):
    if v is None or isinstance(v, (bool, int, float, str)):
        return v
    if isinstance(v, list):
        return [jsonable(x) for x in v]
    if isinstance(v, dict):
        return {str(k): jsonable(x) for k, x in v.items()}
    return f'<{type(v).__name__}>'


def run_tree(case):
    files = case['files']
    fetched = []
    logs = []
    events = []

    def log_fn(text):
        logs.append(text)
        events.append(['log', text])

    def fetch_fn(request):
        url = request['url']
        fetched.append(url)
        events.append(['fetch', url])
        entry = files.get(c17_ref.canon(url)) if isinstance(url, str) else None
        if entry is None:
            return None
        if entry.get('raise'):
            raise ValueError('virtual file system: fetch of %r raises' % (url,))
        return entry['text']

    globals_ = {}
    options = {'globals': globals_, 'logFn': log_fn, 'maxStatements': 200000}
    if case.get('have_fetch', True):
        options['fetchFn'] = fetch_fn
    if case.get('root_loc') is not None:
        options['urlFn'] = functools.partial(url_file_relative, case['root_loc'])
    if case.get('sysprefix') is not None:
        options['systemPrefix'] = case['sysprefix']
    out = {'exc': None}
    try:
        script = parse_script(case['root'])
        out['result'] = jsonable(execute_script(script, options))
    except BareScriptParserError as exc:
        out['exc'] = {'type': 'BareScriptParserError', 'msg': str(exc), 'error': exc.error, 'line': exc.line,
                      'column_number': exc.column_number, 'line_number': exc.line_number}
    except BareScriptRuntimeError as exc:
        out['exc'] = {'type': 'BareScriptRuntimeError', 'msg': str(exc)}
    except Exception as exc:  # pylint: disable=broad-except
        out['exc'] = {'type': type(exc).__name__, 'msg': str(exc)[:300]}
    out['fetched'] = fetched
    out['logs'] = logs
    out['events'] = events
    # the SAME options object once more (fresh globals): a run - also one that failed inside an included file - leaves the includer's
    # path resolution as it was, so the second run fetches, logs and ends exactly like the first
    first = (list(fetched), list(logs), json.dumps(out['exc'], sort_keys=True))
    del fetched[:], logs[:]
    n_events = len(events)
    options['globals'] = {}
    exc2 = None
    try:
        execute_script(parse_script(case['root']), options)
    except BareScriptParserError as exc:
        exc2 = {'type': 'BareScriptParserError', 'msg': str(exc), 'error': exc.error, 'line': exc.line,
                'column_number': exc.column_number, 'line_number': exc.line_number}
    except BareScriptRuntimeError as exc:
        exc2 = {'type': 'BareScriptRuntimeError', 'msg': str(exc)}
    except Exception as exc:  # pylint: disable=broad-except
        exc2 = {'type': type(exc).__name__, 'msg': str(exc)[:300]}
    second = (list(fetched), list(logs), json.dumps(exc2, sort_keys=True))
    if second != first:
        out['again_differs'] = {'first': {'fetched': first[0], 'logs': first[1][:20], 'exc': first[2]},
                                'second': {'fetched': second[0], 'logs': second[1][:20], 'exc': second[2]}}
    del events[n_events:]
    out['fetched'], out['logs'] = first[0], first[1]
    out['globals'] = {k: (jsonable(globals_[k]) if k in globals_ else '<absent>') for k in case.get('track', [])}
    # what parse_script says about each broken text on its own (the include must report the same error, plus the location)
    direct = {}
    for loc, entry in files.items():
        if entry.get('broken'):
            try:
                parse_script(entry['text'])
                direct[loc] = None
            except BareScriptParserError as exc:
                direct[loc] = {'error': exc.error, 'line': exc.line, 'column_number': exc.column_number, 'line_number': exc.line_number}
    out['direct_errors'] = direct
    return out


def run_cli(case):
    """`include <name>` of a shipped include through the CLI's own fetcher and system prefix"""
    from bare_script import bare as bare_cli  # pylint: disable=import-outside-toplevel
    fetched = []

    def fetch_fn(request):
        fetched.append(request['url'])
        return bare_cli._fetch_include(request)  # pylint: disable=protected-access

    out = {'exc': None}
    try:
        execute_script(parse_script(case['cli_root']), {'globals': {}, 'fetchFn': fetch_fn, 'logFn': lambda text: None,
                                                        'systemPrefix': bare_cli._FETCH_INCLUDE_PREFIX})  # pylint: disable=protected-access
    except Exception as exc:  # pylint: disable=broad-except
        out['exc'] = {'type': type(exc).__name__, 'msg': str(exc)[:300]}
    out['fetched'] = fetched
    out['prefix'] = bare_cli._FETCH_INCLUDE_PREFIX  # pylint: disable=protected-access
    return out


def main():
    out = []
    for item in json.load(sys.stdin):
        try:
            if 'cli_root' in item:
                out.append(run_cli(item))
            elif 'ufr' in item:
                base, url = item['ufr']
                try:
                    out.append({'ok': url_file_relative(base, url)})
                except Exception as exc:  # pylint: disable=broad-except
                    out.append({'exc': type(exc).__name__, 'msg': str(exc)[:200]})
            else:
                out.append(run_tree(item))
        except Exception as exc:  # pylint: disable=broad-except
            out.append({'exc': {'type': 'worker:' + type(exc).__name__, 'msg': str(exc)[:300]}, 'fetched': [], 'logs': [], 'globals': {}})
    json.dump(out, sys.stdout)


main()
