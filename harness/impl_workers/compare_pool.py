"""impl worker for C11: value_compare and its consumers on a pool of values.

stdin: JSON list of jobs; every job names the pool file (JSON list of value specs, see build()).
  {"pool": path, "kind": "matrix",  "rows": [i...]}              -> {"rows": {i: "<=>..."}}   value_compare(pool[i], pool[j]) for all j
  {"pool": path, "kind": "ops",     "rows": [i...]}              -> {"rows": {i: [code...]}}  through a real script, all j:
                                                                     code = bits(==,!=,<,<=,>,>=) + 64*(systemCompare+1); -1 = bad result
  {"pool": path, "kind": "sort",    "idx": [k...]}               -> {"perm": [input position...]}          arraySort(arr)
  {"pool": path, "kind": "datasort","rows": [[k...]...], "fields": [name...], "sorts": [[field, desc]...]}   -> {"perm": [...]}
  {"pool": path, "kind": "minmax",  "idx": [k...]}               -> {"min": position, "max": position}     mathMin/mathMax(v0, v1, ...)
  {"pool": path, "kind": "indexof", "idx": [k...], "value": k, "start": n} -> {"index": n}
Every exception is reported as {"exc": type name, "msg": str}.
Value specs: ["null"] ["bool",b] ["int","dec"] ["float","hex"] ["str",s] ["date",y,m,d] ["naive",y,m,d,H,M,S,us]
  ["aware",y,m,d,H,M,S,us,offset_minutes] ["arr",[...]] ["obj",[[k,v]...]] ["fun",id] ["regex",pattern]
"""
import datetime
import json
import re
import sys

from bare_script import execute_script, parse_script
from bare_script.value import value_compare


def build(s):
    k = s[0]
    if k == 'null':
        return None
    if k == 'bool':
        return bool(s[1])
    if k == 'int':
        return int(s[1])
    if k == 'float':
        return float.fromhex(s[1])
    if k == 'str':
        return s[1]
    if k == 'date':
        return datetime.date(s[1], s[2], s[3])
    if k == 'naive':
        return datetime.datetime(*s[1:8])
    if k == 'aware':
        return datetime.datetime(*s[1:8], tzinfo=datetime.timezone(datetime.timedelta(minutes=s[8])))
    if k == 'arr':
        return [build(x) for x in s[1]]
    if k == 'obj':
        return {kk: build(v) for kk, v in s[1]}
    if k == 'fun':
        ident = s[1]
        return lambda args, options: ident
    if k == 'regex':
        return re.compile(s[1])
    raise ValueError(k)


POOLS = {}


def pool_of(path):
    if path not in POOLS:
        with open(path, encoding='utf-8') as fh:
            specs = json.load(fh)
        POOLS[path] = (specs, [build(s) for s in specs])
    return POOLS[path]


SCRIPTS = {}


def script(text):
    if text not in SCRIPTS:
        SCRIPTS[text] = parse_script(text)
    return SCRIPTS[text]


GLOBALS = {}


def run_script(text, variables):
    GLOBALS.update(variables)
    return execute_script(script(text), {'globals': GLOBALS})


OPS_SCRIPT = 'return arrayNew(a == b, a != b, a < b, a <= b, a > b, a >= b, systemCompare(a, b))'


def positions(inputs, outputs):
    """map every output element to the position of the (unused) input element it IS"""
    used = [False] * len(inputs)
    perm = []
    for o in outputs:
        for p, x in enumerate(inputs):
            if not used[p] and x is o:
                used[p] = True
                perm.append(p)
                break
        else:
            perm.append(-1)
    return perm


def do(job):
    specs, pool = pool_of(job['pool'])
    kind = job['kind']
    if kind == 'matrix':
        out = {}
        for i in job['rows']:
            row = []
            for j in range(len(pool)):
                try:
                    c = value_compare(pool[i], pool[j])
                    row.append('<=>'[c + 1] if c in (-1, 0, 1) and not isinstance(c, bool) else '?')
                except Exception:  # pylint: disable=broad-except
                    row.append('!')
            out[str(i)] = ''.join(row)
        return {'rows': out}
    if kind == 'ops':
        out = {}
        for i in job['rows']:
            row = []
            for j in range(len(pool)):
                try:
                    res = run_script(OPS_SCRIPT, {'a': pool[i], 'b': pool[j]})
                    ok = isinstance(res, list) and len(res) == 7 and all(isinstance(x, bool) for x in res[:6]) \
                        and res[6] in (-1, 0, 1) and not isinstance(res[6], bool)
                    row.append(sum((1 << n) for n in range(6) if res[n]) + 64 * (res[6] + 1) if ok else -1)
                except Exception:  # pylint: disable=broad-except
                    row.append(-2)
            out[str(i)] = row
        return {'rows': out}
    if kind == 'sort':
        # fresh containers per position so that identity tells the positions apart
        arr = [build(specs[k]) if specs[k][0] in ('arr', 'obj') else pool[k] for k in job['idx']]
        inputs = list(arr)
        res = run_script('return arraySort(arr)', {'arr': arr})
        if not isinstance(res, list):
            return {'bad': repr(res)[:200]}
        return {'perm': positions(inputs, res), 'same_object': res is arr}
    if kind == 'datasort':
        rows = [{f: pool[k] for f, k in zip(job['fields'], r) if k is not None} for r in job['rows']]
        inputs = list(rows)
        res = run_script('return dataSort(rows, sorts)', {'rows': rows, 'sorts': [list(s) for s in job['sorts']]})
        if not isinstance(res, list):
            return {'bad': repr(res)[:200]}
        return {'perm': positions(inputs, res)}
    if kind == 'minmax':
        vals = [build(specs[k]) if specs[k][0] in ('arr', 'obj') else pool[k] for k in job['idx']]
        names = [f'v{n}' for n in range(len(vals))]
        text = 'return arrayNew(mathMin(' + ', '.join(names) + '), mathMax(' + ', '.join(names) + '))'
        res = run_script(text, dict(zip(names, vals)))
        if not isinstance(res, list) or len(res) != 2:
            return {'bad': repr(res)[:200]}
        first = lambda r: next((p for p, x in enumerate(vals) if x is r), -1)
        return {'min': first(res[0]), 'max': first(res[1])}
    if kind == 'indexof':
        arr = [pool[k] for k in job['idx']]
        if 'start' in job:
            res = run_script('return arrayIndexOf(arr, v, start)', {'arr': arr, 'v': pool[job['value']], 'start': job['start']})
        else:
            res = run_script('return arrayIndexOf(arr, v)', {'arr': arr, 'v': pool[job['value']]})
        if isinstance(res, bool) or not isinstance(res, (int, float)) or res != int(res):
            return {'bad': repr(res)[:200]}
        return {'index': int(res)}
    raise ValueError(kind)


def main():
    out = []
    for job in json.load(sys.stdin):
        try:
            out.append(do(job))
        except Exception as exc:  # pylint: disable=broad-except
            out.append({'exc': type(exc).__name__, 'msg': str(exc)[:300]})
    json.dump(out, sys.stdout)


main()
