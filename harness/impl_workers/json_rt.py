"""impl worker for C14.  stdin: JSON list of cases; stdout: JSON list of results.
case {"v": <tagged value>, "indent": int|null}
   -> {"text": value_json(v, indent), "stext": jsonStringify through a script, "back": tagged jsonParse(stext) through
       the same script, taken from a SECOND jsonParse of the text after the first result was mutated: every parse must give a
       fresh value}   (each leg may instead be {"exc": type name, "msg": str})
case {"parse": text}
   -> {"parsed": tagged SCRIPT_FUNCTIONS['jsonParse']([text])} | {"exc": ..., "msg": ...}
tagged value: ["n"] | ["b", bool] | ["i", "<decimal>"] | ["f", float.hex()] | ["s", str] | ["a", [..]] | ["o", [[key, value]..]]"""
import json
import sys

from bare_script import execute_script, parse_script
from bare_script.library import SCRIPT_FUNCTIONS
from bare_script.value import value_json


def untag(t):
    k = t[0]
    if k == 'n':
        return None
    if k == 'b':
        return bool(t[1])
    if k == 'i':
        return int(t[1])
    if k == 'f':
        return float.fromhex(t[1])
    if k == 's':
        return t[1]
    if k == 'a':
        return [untag(x) for x in t[1]]
    if k == 'o':
        return {key: untag(x) for key, x in t[1]}
    raise ValueError(k)


def tag(x):
    if x is None:
        return ['n']
    if isinstance(x, bool):
        return ['b', x]
    if isinstance(x, int):
        return ['i', str(x)]
    if isinstance(x, float):
        return ['f', x.hex()]
    if isinstance(x, str):
        return ['s', x]
    if isinstance(x, (list, tuple)):
        return ['a', [tag(y) for y in x]]
    if isinstance(x, dict):
        return ['o', [[k if isinstance(k, str) else '<non-string key %r>' % (k,), tag(y)] for k, y in x.items()]]
    return ['?', repr(x)[:200]]


SCRIPT_PLAIN = parse_script('''\
text = jsonStringify(v)
first = jsonParse(text)
if systemType(first) == 'array':
    arrayPush(first, 'MUTATED')
elif systemType(first) == 'object':
    objectSet(first, '__mutated', 1)
endif
back = jsonParse(text)
return arrayNew(text, back)
''')
SCRIPT_INDENT = parse_script('''\
text = jsonStringify(v, indent)
first = jsonParse(text)
if systemType(first) == 'array':
    arrayPush(first, 'MUTATED')
elif systemType(first) == 'object':
    objectSet(first, '__mutated', 1)
endif
back = jsonParse(text)
return arrayNew(text, back)
''')


def exc(e):
    return {'exc': type(e).__name__, 'msg': str(e)[:300]}


def main():
    sys.setrecursionlimit(10000)
    out = []
    for case in json.load(sys.stdin):
        if 'parse' in case:
            try:
                out.append({'parsed': tag(SCRIPT_FUNCTIONS['jsonParse']([case['parse']], None))})
            except Exception as e:  # pylint: disable=broad-except
                out.append(exc(e))
            continue
        res = {}
        try:
            v = untag(case['v'])
            indent = case.get('indent')
        except Exception as e:  # pylint: disable=broad-except
            out.append({'text': exc(e), 'stext': exc(e), 'back': exc(e)})
            continue
        try:
            res['text'] = value_json(v, indent)
        except Exception as e:  # pylint: disable=broad-except
            res['text'] = exc(e)
        try:
            logs = []
            options = {'globals': {'v': v, 'indent': indent}, 'logFn': logs.append, 'debug': True}
            r = execute_script(SCRIPT_PLAIN if indent is None else SCRIPT_INDENT, options)
            if isinstance(r, list) and len(r) == 2:
                res['stext'] = r[0] if isinstance(r[0], str) else {'exc': 'NotAString', 'msg': repr(r[0])[:200] + ' log=' + ' | '.join(logs)[:300]}
                res['back'] = tag(r[1])
                if r[1] is None and logs:
                    res['log'] = ' | '.join(logs)[:300]
            else:
                res['stext'] = res['back'] = {'exc': 'BadScriptResult', 'msg': repr(r)[:200]}
        except Exception as e:  # pylint: disable=broad-except
            res['stext'] = res['back'] = exc(e)
        # the same value with every repeated (equal) sub-container made ONE shared object: sharing without a cycle is not a circular reference
        try:
            memo, hits = {}, [0]

            def share(x):
                if isinstance(x, list):
                    y = [share(e) for e in x]
                elif isinstance(x, dict):
                    y = {k: share(e) for k, e in x.items()}
                else:
                    return x
                key = repr(y)
                if key in memo:
                    hits[0] += 1
                    return memo[key]
                memo[key] = y
                return y
            v2 = share(v)
            if hits[0]:
                logs2 = []
                r2 = execute_script(SCRIPT_PLAIN if indent is None else SCRIPT_INDENT,
                                    {'globals': {'v': v2, 'indent': indent}, 'logFn': logs2.append, 'debug': True})
                res['shared_text'] = r2[0] if isinstance(r2, list) and len(r2) == 2 and isinstance(r2[0], str) else \
                    {'exc': 'NotAString', 'msg': repr(r2)[:200] + ' log=' + ' | '.join(logs2)[:300]}
        except Exception as e:  # pylint: disable=broad-except
            res['shared_text'] = exc(e)
        out.append(res)
    json.dump(out, sys.stdout)


main()
