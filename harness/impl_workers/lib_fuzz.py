"""impl worker: every library function x random argument lists of every type; only documented exceptions may escape.
stdin: [{"seed": int, "n": calls per function}] -> [{"calls": k, "outcomes": {...}, "failures": [...]}]"""
import datetime
import json
import random
import re
import signal
import sys

from bare_script import execute_script, parse_script
from bare_script.library import SCRIPT_FUNCTIONS
from bare_script.parser import BareScriptParserError
from bare_script.runtime import BareScriptRuntimeError


def values(r):
    cyc = [1.0]
    cyc.append(cyc)
    cobj = {'a': 1.0}
    cobj['self'] = cobj
    return [None, True, False, 0.0, -0.0, 1.0, -1.0, 2.5, 3, 0, -7, 1000.0, float('inf'), float('-inf'), float('nan'), 10 ** 400, -(10 ** 400),
            '', 'abc', ' a,b ', '12', '(', '\\', 'é\U0001f600', '2024-02-30', '%zz',
            datetime.datetime(2024, 2, 29, 1, 2, 3, 4000), datetime.datetime(1, 1, 1), datetime.datetime(9999, 12, 31, 23, 59, 59, 999999), datetime.date(2024, 1, 1),
            [], [1.0, 'a', None], [[1.0], {'k': 2.0}], cyc, {}, {'a': 1.0, 'b': [2.0]}, cobj, [{'a': 1.0}, {'a': 2.0}],
            re.compile('a+'), re.compile('('.replace('(', '(b)')), SCRIPT_FUNCTIONS['mathAbs'], (lambda args, options: 1 // 0), (lambda args, options: args)]


class _Timeout(BaseException):
    pass


def _on_alarm(signum, frame):
    raise _Timeout()


def main():
    signal.signal(signal.SIGALRM, _on_alarm)
    spec = json.load(sys.stdin)[0]
    r = random.Random(spec['seed'])
    outcomes, failures, calls = {}, [], 0
    names = sorted(SCRIPT_FUNCTIONS)
    for name in names:
        for _ in range(spec['n']):
            pool = values(r)
            nargs = r.choice([0, 1, 1, 2, 2, 3, 3, 4, 5])
            args = [r.choice(pool) for _ in range(nargs)]
            text = f'return {name}(' + ', '.join(f'x{i}' for i in range(nargs)) + ')\n'
            globals_ = {f'x{i}': a for i, a in enumerate(args)}
            log = []
            options = {'globals': globals_, 'maxStatements': 200, 'logFn': log.append, 'debug': r.random() < 0.3}
            if r.random() < 0.2:
                options['fetchFn'] = lambda req: (_ for _ in ()).throw(OSError('no'))   # a throwing fetch function
            calls += 1
            signal.alarm(5)
            try:
                execute_script(parse_script(text), options)
                kind = 'value'
            except _Timeout:
                # a single library call that does not return (big-int powers such as numberToFixed(x, 10**400)): observation F22,
                # outside the property's quantifier (it is not an exception); counted, not failed
                kind = 'did-not-return-within-5s(observation F22)'
            except BareScriptRuntimeError:
                kind = 'BareScriptRuntimeError'
            except BareScriptParserError:
                kind = 'BareScriptParserError'
            except RecursionError:
                kind = 'RecursionError(out of scope)'
            except BaseException as exc:  # pylint: disable=broad-except
                kind = type(exc).__name__
                if len(failures) < 30:
                    failures.append({'source': text.strip(), 'arguments': repr(args)[:400], 'exception': kind, 'message': str(exc)[:200]})
            finally:
                signal.alarm(0)
            outcomes[kind] = outcomes.get(kind, 0) + 1
    json.dump([{'calls': calls, 'outcomes': outcomes, 'failures': failures}], sys.stdout)


main()
