"""impl worker for C13: number -> text -> number.

stdin: JSON list of jobs
  {"kind": "double", "hex": float.hex()}  -> {"repr", "vs" (value_string), "routes": [text by '' + x, stringNew, arrayJoin, systemLog],
                                              "pf": numberParseFloat(text by concat) through a script (hex | null | other),
                                              "vpn": value_parse_number(vs), "lit": parse_expression(vs), "litrun": execute `return <vs>`}
  {"kind": "int", "dec": "..."}            -> {"vs", "routes", "pi": numberParseInt(text), "pf": numberParseFloat(text), "vpi": value_parse_integer(vs)}
  {"kind": "text", "text": s}              -> {"vpn", "vpi", "pf", "pi"}   both parsers, directly and through a script
Numbers are reported as ["f", hex] / ["i", dec]; null as null; anything else as ["?", repr]; exceptions as {"exc": ...}.
"""
import json
import sys

from bare_script import execute_script, parse_expression, parse_script
from bare_script.value import value_parse_integer, value_parse_number, value_string


def enc(v):
    if v is None:
        return None
    if isinstance(v, bool):
        return ['?', repr(v)]
    if isinstance(v, float):
        return ['f', v.hex()]
    if isinstance(v, int):
        return ['i', str(v)]
    if isinstance(v, str):
        return ['s', v]
    return ['?', repr(v)[:100]]


def guard(fn):
    try:
        return fn()
    except Exception as exc:  # pylint: disable=broad-except
        return {'exc': type(exc).__name__, 'msg': str(exc)[:200]}


SCRIPTS = {}


def script(text):
    if text not in SCRIPTS:
        SCRIPTS[text] = parse_script(text)
    return SCRIPTS[text]


GLOBALS = {}
ROUTES = '''s1 = '' + x
s2 = stringNew(x)
s3 = arrayJoin(arrayNew(x), ',')
systemLog(x)
return arrayNew(s1, s2, s3, numberParseFloat(s1), numberParseInt(s1))
'''
PARSERS = 'return arrayNew(numberParseFloat(t), numberParseInt(t))'


def run(text, variables, logs=None):
    GLOBALS.update(variables)
    options = {'globals': GLOBALS}
    if logs is not None:
        options['logFn'] = logs.append
    return execute_script(script(text), options)


def routes(x):
    logs = []
    res = run(ROUTES, {'x': x}, logs)
    return res, logs


def do(job):
    kind = job['kind']
    if kind in ('double', 'int'):
        x = float.fromhex(job['hex']) if kind == 'double' else int(job['dec'])
        out = {'repr': repr(x)}
        vs = guard(lambda: value_string(x))
        out['vs'] = vs

        def go():
            res, logs = routes(x)
            return {'routes': [enc(res[0]), enc(res[1]), enc(res[2]), enc(logs[0]) if len(logs) == 1 else ['?', repr(logs)[:100]]],
                    'pf': enc(res[3]), 'pi': enc(res[4])}
        r = guard(go)
        if 'exc' in r:
            out['script'] = r
        else:
            out.update(r)
        if isinstance(vs, str):
            out['vpn'] = guard(lambda: enc(value_parse_number(vs)))
            out['vpi'] = guard(lambda: enc(value_parse_integer(vs)))
            if kind == 'double':
                def lit():
                    e = parse_expression(vs)
                    return enc(e['number']) if list(e.keys()) == ['number'] else ['?', json.dumps(e)[:100]]
                out['lit'] = guard(lit)
                out['litrun'] = guard(lambda: enc(execute_script(parse_script('return ' + vs), {})))
        return out
    if kind == 'text':
        t = job['text']
        out = {'vpn': guard(lambda: enc(value_parse_number(t))), 'vpi': guard(lambda: enc(value_parse_integer(t)))}

        def go():
            res = run(PARSERS, {'t': t})
            return {'pf': enc(res[0]), 'pi': enc(res[1])}
        r = guard(go)
        if 'exc' in r:
            out['script'] = r
        else:
            out.update(r)
        return out
    raise ValueError(kind)


def main():
    out = []
    for job in json.load(sys.stdin):
        try:
            out.append(do(job))
        except Exception as exc:  # pylint: disable=broad-except
            out.append({'exc': type(exc).__name__, 'msg': str(exc)[:300]})
    json.dump(out, sys.stdout)


main()
