"""lib_spell.py - call one library function through a real script twice: every integral number (recursively inside arrays and
objects) once as a host int and once as a float.
in : [{'f': name, 'args': [enc]}]     enc: ['z'] ['b',bool] ['n',number] ['s',str] ['a',[enc]] ['o',[[k,enc]]] ['d'] ['r',pattern] ['fn'] ['alias',i]
out: [{'int': run, 'flt': run, 'mix': run (integral numbers int or float following a fixed irregular sequence inside one argument list)}]      run = {'dump': graph dump of [result] + arguments after the call, 'failed': [messages], 'logs': [...]}
"""
import datetime
import json
import os
import re
import signal
import sys
import time

os.environ['TZ'] = 'UTC'
time.tzset()
sys.path.insert(0, os.path.dirname(os.path.abspath(__file__)))
sys.setrecursionlimit(3000)

from bare_script import execute_script, parse_script  # noqa: E402
import graphdump  # noqa: E402

REGEX_TYPE = type(re.compile(''))
EPOCH = datetime.datetime(1970, 1, 1)


class CaseTimeout(BaseException):
    pass


def _on_alarm(signum, frame):
    raise CaseTimeout()


signal.signal(signal.SIGALRM, _on_alarm)


def identity(args, unused_options):
    return args[0] if args else None


def classify(v):
    if v is None:
        return ('null',)
    if isinstance(v, bool):
        return ('bool', v)
    if isinstance(v, int):
        return ('int', v)
    if isinstance(v, float):
        return ('flt', v)
    if isinstance(v, str):
        return ('str', v)
    if isinstance(v, datetime.datetime):
        d = v if v.tzinfo is None else v.astimezone(datetime.timezone.utc).replace(tzinfo=None)
        return ('date', str((d - EPOCH) // datetime.timedelta(microseconds=1)))
    if isinstance(v, datetime.date):
        return ('date', 'D' + v.isoformat())
    if isinstance(v, list):
        return ('arr', v)
    if isinstance(v, dict):
        return ('obj', v)
    if isinstance(v, REGEX_TYPE):
        return ('regex', v.pattern, v.flags)
    if callable(v):
        return ('fn',)
    return ('unknown', type(v).__name__)


MIX = [0]


def build(enc, as_float, built):
    k = enc[0]
    if k == 'z':
        return None
    if k == 'b':
        return enc[1]
    if k == 'n':
        x = enc[1]
        if isinstance(x, int) or (isinstance(x, float) and x == int(x)):
            if as_float == 'mix':          # both spellings inside ONE argument list / container
                MIX[0] = (MIX[0] * 1103515245 + 12345) % (2 ** 31)          # a fixed irregular sequence (rows of a table share a field pattern)
                return float(x) if (MIX[0] >> 16) & 1 else int(x)
            return float(x) if as_float else int(x)
        return x
    if k == 's':
        return enc[1]
    if k == 'a':
        return [build(e, as_float, built) for e in enc[1]]
    if k == 'o':
        return {key: build(e, as_float, built) for key, e in enc[1]}
    if k == 'd':
        return datetime.datetime(2020, 1, 2, 3, 4, 5, 678000)
    if k == 'r':
        return re.compile(enc[1])
    if k == 'fn':
        return identity
    if k == 'alias':
        return built[enc[1]]
    raise ValueError(enc)


def run_one(case, as_float):
    MIX[0] = 0
    args = []
    for enc in case['args']:
        args.append(build(enc, as_float, args))
    glob = {f'a{i}': v for i, v in enumerate(args)}
    logs = []
    src = 'r = ' + case['f'] + '(' + ', '.join(f'a{i}' for i in range(len(args))) + ')\n'
    signal.alarm(10)
    try:
        execute_script(parse_script(src), {'globals': glob, 'logFn': logs.append, 'debug': True})
    except CaseTimeout:
        return {'exc': 'CaseTimeout', 'msg': 'the call did not finish within 10 s'}
    except Exception as exc:  # pylint: disable=broad-exception-caught
        return {'exc': type(exc).__name__, 'msg': str(exc)[:200]}
    finally:
        signal.alarm(0)
    failed = [m for m in logs if m.startswith('BareScript: Function "')]
    other = [m for m in logs if not m.startswith('BareScript: Function "')]
    try:
        dump = graphdump.dump([glob.get('r')] + [glob.get(f'a{i}') for i in range(len(args))], classify)
    except Exception as exc:  # pylint: disable=broad-exception-caught
        return {'exc': 'dump:' + type(exc).__name__, 'msg': str(exc)[:200]}
    return {'dump': dump, 'failed': failed, 'logs': other}


def main():
    cases = json.load(sys.stdin)
    json.dump([{'int': run_one(c, False), 'flt': run_one(c, True), 'mix': run_one(c, 'mix')} for c in cases], sys.stdout)


if __name__ == '__main__':
    main()
