"""impl worker for C07: parse_script on each case -> canonical model (or error) + what C07 observes on the
implementation: raw statement shape, validate_script, lint_script, execution with a small maxStatements.
stdin: JSON list of {"text": str, "validate": bool?, "lint": bool?, "exec": [globals dict, ...]?, "canon": bool?}
out  : per case {"ok": canonical statements | absent, "err": [...], "host": ..., "shape": [paths of statements whose dict
        does not have exactly one key], "valid": bool, "valid_error": str, "lint": [warnings], "exec": [{"exc","msg"} | {"done":1}]}"""
import copy
import json
import sys

from bare_script import parse_script, validate_script, lint_script, execute_script
from bare_script.parser import BareScriptParserError


def cexpr(e):
    (k, v), = e.items()
    if k == 'number':
        if isinstance(v, bool) or not isinstance(v, (int, float)):
            return ['badnum', repr(v)]
        return ['int', str(v)] if isinstance(v, int) else ['num', v.hex()]
    if k == 'string':
        return ['str', v]
    if k == 'variable':
        return ['var', v]
    if k == 'function':
        return ['call', v['name'], [cexpr(a) for a in v.get('args', [])]]
    if k == 'binary':
        return ['bin', v['op'], cexpr(v['left']), cexpr(v['right'])]
    if k == 'unary':
        return ['un', v['op'], cexpr(v['expr'])]
    if k == 'group':
        return ['group', cexpr(v)]
    return ['unknown', k]


def cstmt(s):
    (k, v), = s.items()
    if k == 'expr':
        return ['expr', v.get('name'), cexpr(v['expr'])]
    if k == 'jump':
        return ['jump', v['label'], cexpr(v['expr']) if 'expr' in v else None]
    if k == 'return':
        return ['return', cexpr(v['expr']) if 'expr' in v else None]
    if k == 'label':
        return ['label', v]
    if k == 'function':
        return ['function', v['name'], v.get('args'), bool(v.get('async')), bool(v.get('lastArgArray')), [cstmt(x) for x in v['statements']]]
    if k == 'include':
        return ['include', [[i['url'], bool(i.get('system'))] for i in v['includes']]]
    return ['unknown', k]


STMT_KEYS = {'expr', 'jump', 'return', 'label', 'function', 'include'}


def bad_shapes(stmts, path, out):
    """statements that are not a dict with exactly one of the six union keys (independent of validate_script)"""
    for i, s in enumerate(stmts):
        if not isinstance(s, dict) or len(s) != 1 or next(iter(s)) not in STMT_KEYS:
            out.append(f'{path}[{i}]')
            continue
        if 'function' in s:
            body = s['function'].get('statements')
            if not isinstance(body, list):
                out.append(f'{path}[{i}].statements')
            else:
                bad_shapes(body, f'{path}[{i}].function', out)


def main():
    sys.setrecursionlimit(10000)
    out = []
    for case in json.load(sys.stdin):
        res = {}
        try:
            script = parse_script(case['text'])
            shape = []
            bad_shapes(script['statements'], 'statements', shape)
            res['shape'] = shape
            if not shape:
                res['ok'] = [cstmt(s) for s in script['statements']]
            else:
                res['ok'] = None
            if case.get('validate'):
                try:
                    validate_script(copy.deepcopy(script))
                    res['valid'] = True
                except Exception as exc:  # pylint: disable=broad-except
                    res['valid'] = False
                    res['valid_error'] = f'{type(exc).__name__}: {exc}'[:300]
            if case.get('validate') and res.get('valid') and 'start' in case:
                # the same text parsed with another start line number: the SAME model (line numbers only appear in errors), still schema-valid
                try:
                    script2 = parse_script(case['text'], case['start'])
                    if script2 != script:
                        res['valid'] = False
                        res['valid_error'] = f'start_line_number={case["start"]} changes the model: top-level members {sorted(script2)}'
                    else:
                        validate_script(copy.deepcopy(script2))
                except Exception as exc:  # pylint: disable=broad-except
                    res['valid'] = False
                    res['valid_error'] = f'start_line_number={case["start"]}: {type(exc).__name__}: {exc}'[:300]
            if case.get('lint'):
                try:
                    res['lint'] = [w for w in lint_script(script) if 'abel' in w]
                except Exception as exc:  # pylint: disable=broad-except
                    res['lint_error'] = f'{type(exc).__name__}: {exc}'[:300]
            runs = []
            for globals_ in case.get('exec') or []:
                try:
                    execute_script(copy.deepcopy(script), {'globals': copy.deepcopy(globals_), 'maxStatements': case.get('max', 400),
                                                           'logFn': lambda _msg: None})
                    runs.append({'done': 1})
                except Exception as exc:  # pylint: disable=broad-except
                    runs.append({'exc': type(exc).__name__, 'msg': str(exc)[:200]})
            if runs:
                res['exec'] = runs
        except BareScriptParserError as exc:
            res['err'] = [exc.error, exc.line, exc.column_number, exc.line_number, str(exc)]
        except Exception as exc:  # pylint: disable=broad-except
            res['host'] = type(exc).__name__
            res['host_msg'] = str(exc)[:200]
        if not case.get('canon', True) and res.get('ok') is not None:
            # keep only what the static check needs (labels and jumps per scope) to bound the transfer size
            res['ok'] = slim(res['ok'])
        out.append(res)
    json.dump(out, sys.stdout)


def slim(stmts):
    out = []
    for s in stmts:
        if s[0] == 'label':
            out.append(s)
        elif s[0] == 'jump':
            out.append(['jump', s[1], None])
        elif s[0] == 'function':
            out.append(['function', s[1], None, False, False, slim(s[5])])
        else:
            out.append([s[0]])
    return out


main()
