"""impl worker (C18): lint_script on a model / source text.
stdin: JSON list of {"model": <canonical statements> | "text": str, "per_function": bool?}
out  : {"model": canonical statements (as the implementation sees them), "valid": bool, "valid_error": str?,
        "lint": [str...] | "exc": type, "msg": str, "lint2": second call, "mutated": bool,
        "fn_lint": {index of a global function statement: lint of the script made of that statement alone}}"""
import copy
import json
import os
import sys

from bare_script import parse_script, validate_script, lint_script

sys.path.insert(0, os.path.dirname(__file__))


def load_uncanon():
    """uncanon_stmt of the run_script worker, without running its main()"""
    path = os.path.join(os.path.dirname(__file__), 'run_script.py')
    with open(path, encoding='utf-8') as fh:
        src = fh.read()
    src = src[:src.rindex('\nmain()')]
    ns = {'__name__': 'run_script_lib'}
    exec(compile(src, path, 'exec'), ns)   # pylint: disable=exec-used
    return ns['uncanon_stmt']


uncanon_stmt = load_uncanon()
from parse_script import cstmt   # noqa: E402  pylint: disable=wrong-import-position


def lint_guarded(script):
    try:
        out = lint_script(script)
        if not isinstance(out, list) or not all(isinstance(w, str) for w in out):
            return {'exc': 'NotAListOfStrings', 'msg': repr(out)[:200]}
        return {'lint': list(out)}
    except RecursionError:
        return {'exc': 'RecursionError', 'msg': ''}
    except Exception as exc:  # pylint: disable=broad-except
        return {'exc': type(exc).__name__, 'msg': str(exc)[:200]}


def run_case(case):
    res = {}
    try:
        if 'model' in case:
            script = {'statements': [uncanon_stmt(s) for s in case['model']]}
        else:
            script = parse_script(case['text'])
    except Exception as exc:  # pylint: disable=broad-except
        return {'build_error': type(exc).__name__, 'msg': str(exc)[:200]}
    try:
        res['model'] = [cstmt(s) for s in script['statements']]
    except Exception as exc:  # pylint: disable=broad-except
        res['model_error'] = type(exc).__name__
    try:
        validate_script(copy.deepcopy(script))
        res['valid'] = True
    except Exception as exc:  # pylint: disable=broad-except
        res['valid'] = False
        res['valid_error'] = f'{type(exc).__name__}: {exc}'[:200]
    before = copy.deepcopy(script)
    first = lint_guarded(script)
    res.update(first)
    res['mutated'] = before != script
    second = lint_guarded(script)
    res['lint2'] = second.get('lint', second.get('exc'))
    res['mutated2'] = before != script
    if case.get('per_function', True):
        fl = {}
        for k, st in enumerate(before['statements']):
            if 'function' in st:
                one = lint_guarded({'statements': [copy.deepcopy(st)]})
                fl[str(k)] = one.get('lint', ['<' + one.get('exc', '?') + '>'])
        res['fn_lint'] = fl
    return res


def main():
    sys.setrecursionlimit(10000)
    json.dump([run_case(c) for c in json.load(sys.stdin)], sys.stdout)


main()
