"""impl worker for C19 (malformed stream): run a script text, report the dumped result or the exception.
stdin: JSON list of {"src": text}; stdout: JSON list of {"out": value spec} | {"exc": type name, "msg": str}."""
import datetime
import json
import sys

from bare_script import execute_script, parse_script


def dump(v):
    if v is None:
        return ['null']
    if isinstance(v, bool):
        return ['bool', v]
    if isinstance(v, int):
        return ['int', str(v)]
    if isinstance(v, float):
        return ['float', v.hex()]
    if isinstance(v, str):
        return ['str', v]
    if isinstance(v, datetime.date):
        return ['date', v.isoformat()]
    if isinstance(v, list):
        return ['arr', [dump(x) for x in v]]
    if isinstance(v, dict):
        return ['obj', [[str(k), dump(x)] for k, x in v.items()]]
    return ['other', type(v).__name__]


def main():
    res = []
    for c in json.load(sys.stdin):
        try:
            res.append({'out': dump(execute_script(parse_script(c['src']), {'globals': {}}))})
        except Exception as exc:  # pylint: disable=broad-except
            res.append({'exc': type(exc).__name__, 'msg': str(exc)[:300]})
    json.dump(res, sys.stdout)


main()
