"""C17 reference reading of the property, written from the property text (no import of the implementation).

A LOCATION is a file path or an absolute URL.  Two spellings name the same location when they differ only in `.`
segments, repeated slashes, or `name/..` pairs; `canon` maps a spelling to the canonical one.  The virtual file system
of the check is keyed by canonical locations (as a real file system or web server would treat them), so that the oracle
compares WHERE the implementation fetched from, not how it spelt it.

Resolution rule of the property: an absolute URL and an absolute path are taken as they are; anything else is relative to
the directory of the file that contains the include statement (the includer's own location, whatever was included before);
a system include is relative to the configured system prefix instead; at the top level without a location the path is used
as it is.
"""
import re

_SCHEME = re.compile(r'^[a-z]+:')
_AUTH = re.compile(r'^([a-z]+://[^/]*)(.*)$', re.S)


def is_abs_url(ref):
    return _SCHEME.match(ref) is not None


def canon(loc):
    m = _AUTH.match(loc)
    if m:
        prefix, path = m.group(1), m.group(2)
        absolute = True
    else:
        prefix, path = '', loc
        absolute = path.startswith('/')
    segs = []
    for s in path.split('/'):
        if s in ('', '.'):
            continue
        if s == '..' and segs and segs[-1] != '..':
            segs.pop()
        else:
            segs.append(s)
    return prefix + ('/' if absolute else '') + '/'.join(segs)


def dir_of(loc):
    """the directory part of a location, through its last slash"""
    return loc[:loc.rfind('/') + 1]


def resolve(base, ref):
    """base: the includer's location (or a system prefix), None at a top level without location"""
    if is_abs_url(ref) or ref.startswith('/') or base is None:
        return canon(ref)
    return canon(dir_of(base) + ref)


class RefFail(Exception):
    def __init__(self, kind, loc):
        super().__init__(kind, loc)
        self.kind = kind        # 'runtime' | 'parser'
        self.loc = loc


def ref_run(files, root_body, root_loc, sysprefix, have_fetch=True, swallow_parser_error_in_function=False):
    """files: canonical location -> {'body': [...]} | {'broken': True} | {'raise': True}; statements:
         ['log', tag] ['mark', id] ['return'] ['include', [[ref, system]...]] ['includefn', id, [[ref, system]...]]
       -> dict(fetched=[canonical locations], logs=[...], globals={...}, fail=None|(kind, loc))
       swallow_parser_error_in_function=True gives the run under candidate finding F15 (a parser error of an included text is
       lost at the nearest enclosing function call, which returns null); used only to CLASSIFY a failure, never to accept it"""
    fetched = []
    swallowed = []
    logs = []
    globals_ = {'trace': ''}
    fail = None

    def run(body, loc):
        for st in body:
            kind = st[0]
            if kind == 'log':
                logs.append(st[1])
            elif kind == 'mark':
                # runs in GLOBAL scope wherever the include statement was: appends to the global trace; function locals of an
                # includer are not visible (the global `loc` is never defined)
                globals_['trace'] += st[1] + ';'
                globals_['seen_' + st[1]] = None
            elif kind == 'return':
                return
            elif kind in ('include', 'includefn'):
                incs = st[1] if kind == 'include' else st[2]
                try:
                    for ref, system in incs:
                        target = resolve(sysprefix, ref) if (system and sysprefix is not None) else resolve(loc, ref)
                        fetched.append(target)
                        f = files.get(target) if have_fetch else None
                        if f is None or f.get('raise'):
                            raise RefFail('runtime', target)
                        if f.get('broken'):
                            raise RefFail('parser', target)
                        run(f['body'], target)      # the included script runs to its end or to ITS return, then the includer goes on
                    if kind == 'includefn':
                        globals_['r_' + st[1]] = 'L'    # the wrapper function returns its own local after the includes
                except RefFail as exc:
                    if not (swallow_parser_error_in_function and kind == 'includefn' and exc.kind == 'parser'):
                        raise
                    swallowed.append(exc.loc)
                    globals_['r_' + st[1]] = None

    try:
        run(root_body, root_loc)
    except RefFail as exc:
        fail = (exc.kind, exc.loc)
    return {'fetched': fetched, 'logs': logs, 'globals': globals_, 'fail': fail, 'swallowed': swallowed}


# ------------------------------------------------------------------ rendering a statement list as BareScript text
def q(s):
    return "'" + s.replace('\\', '\\\\').replace("'", "\\'") + "'"


def render(body, is_root=False):
    lines = []
    if is_root:
        lines.append("trace = ''")
    for st in body:
        kind = st[0]
        if kind == 'log':
            lines.append(f'systemLog({q(st[1])})')
        elif kind == 'mark':
            lines.append(f'seen_{st[1]} = loc')
            lines.append(f"trace = trace + {q(st[1] + ';')}")
        elif kind == 'return':
            lines.append('return')
        elif kind == 'include':
            for ref, system in st[1]:
                lines.append(f'include <{ref}>' if system else f'include {q(ref)}')
        elif kind == 'includefn':
            lines.append(f'function fn_{st[1]}():')
            lines.append("    loc = 'L'")
            for ref, system in st[2]:
                lines.append(f'    include <{ref}>' if system else f'    include {q(ref)}')
            lines.append('    return loc')
            lines.append('endfunction')
            lines.append(f'r_{st[1]} = fn_{st[1]}()')
        else:
            raise ValueError(kind)
    return '\n'.join(lines) + '\n'
