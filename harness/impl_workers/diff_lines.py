"""impl worker for C20: diffLines of the shipped include library, executed through the PUBLIC API
(parse_script + execute_script) with `include <diff.bare>` resolved by the CLI's own fetcher and system prefix
(bare_script.bare._fetch_include / _FETCH_INCLUDE_PREFIX).

stdin: JSON list of items
  {"left": <str | [str]>, "right": <str | [str]>}                         -> {"ok": <result>} | {"exc": .., "msg": ..}
  {"exhaustive": {"alphabet": "abc", "maxlen": n, "shard": k, "of": m}}   -> the property is evaluated here (c20_oracle.check)
         on every pair (i, j) of line lists of length <= n with (i * N + j) % m == k; returns counts, a digest of all
         results and the first failures
  {"consumer": [[a, b], ...]}  -> unittestDeepEqual(a, b) for each text pair inside one unittest run: {"failures": [...], "diffs": [...]}
  {"includes": true}   -> for every shipped include/*.bare (importlib.resources): parse, validate_script, lint_script
"""
import hashlib
import importlib.resources
import json
import os
import sys

sys.path.insert(0, os.path.dirname(os.path.abspath(__file__)))
import c20_oracle  # noqa: E402  pylint: disable=wrong-import-position

from bare_script import parse_script, execute_script, validate_script, lint_script  # noqa: E402
from bare_script import bare as bare_cli  # noqa: E402

LOOP = '''\
include <diff.bare>
results = arrayNew()
for case in cases:
    arrayPush(results, diffLines(arrayGet(case, 0), arrayGet(case, 1)))
endfor
'''
LOOP_SCRIPT = parse_script(LOOP)


def run_batch(pairs, max_statements):
    """one execute_script over a list of [left, right] pairs -> list of results (raises on a script error)"""
    globals_ = {'cases': [list(p) for p in pairs]}
    logs = []
    execute_script(LOOP_SCRIPT, {
        'globals': globals_,
        'fetchFn': bare_cli._fetch_include,           # pylint: disable=protected-access
        'systemPrefix': bare_cli._FETCH_INCLUDE_PREFIX,  # pylint: disable=protected-access
        'logFn': logs.append,
        'maxStatements': max_statements,
    })
    res = globals_.get('results')
    if not isinstance(res, list) or len(res) != len(pairs):
        raise RuntimeError('results array has the wrong shape')
    return res


def run_pairs(pairs, per_case_statements=400000):
    """results for all pairs; a failing batch is re-run case by case so that one bad case is isolated"""
    out = []
    step = 400
    for i in range(0, len(pairs), step):
        chunk = pairs[i:i + step]
        try:
            out += [{'ok': r} for r in run_batch(chunk, per_case_statements * 4 + 2000 * len(chunk))]
        except Exception:  # pylint: disable=broad-except
            for p in chunk:
                try:
                    out.append({'ok': run_batch([p], per_case_statements)[0]})
                except Exception as exc:  # pylint: disable=broad-except
                    out.append({'exc': type(exc).__name__, 'msg': str(exc)[:300]})
    return out


def exhaustive(spec):
    lists = c20_oracle.lists_upto(list(spec['alphabet']), spec['maxlen'])
    n = len(lists)
    k, m = spec['shard'], spec['of']
    pairs = [(lists[ix // n], lists[ix % n]) for ix in range(k, n * n, m)]
    results = run_pairs(pairs)
    digest = hashlib.sha256()
    fails = []
    nfail = 0
    hist = {}
    nontrivial = 0
    for (left, right), res in zip(pairs, results):
        digest.update(json.dumps(res, sort_keys=True).encode())
        bad = c20_oracle.check(left, right, res)
        if bad is not None:
            nfail += 1
            if len(fails) < 10:
                fails.append({'left': left, 'right': right, 'class': bad[0], 'detail': bad[1], 'got': res})
        elif 'ok' in res:
            key = ''.join(b['type'][0] for b in res['ok'])
            hist[key] = hist.get(key, 0) + 1
            if len(res['ok']) >= 3:
                nontrivial += 1
    return {'count': len(pairs), 'nfail': nfail, 'fails': fails, 'shapes': hist, 'nontrivial': nontrivial,
            'digest': digest.hexdigest()}


CONSUMER = '''\
include <unittest.bare>
diffs = arrayNew()
function testIt():
    for case in cases:
        unittestDeepEqual(arrayGet(case, 0), arrayGet(case, 1))
        arrayPush(diffs, diffLines(arrayGet(case, 0), arrayGet(case, 1)))
    endfor
endfunction
unittestRunTest('testIt')
failures = objectGet(unittestTests, 'testIt')
'''


def consumer(pairs):
    """unittestDeepEqual (the shipped consumer of diffLines) on text pairs -> its failure entries and the diffLines results"""
    globals_ = {'cases': [list(p) for p in pairs]}
    execute_script(parse_script(CONSUMER), {
        'globals': globals_,
        'fetchFn': bare_cli._fetch_include,           # pylint: disable=protected-access
        'systemPrefix': bare_cli._FETCH_INCLUDE_PREFIX,  # pylint: disable=protected-access
        'logFn': lambda text: None,
        'maxStatements': 5000000,
    })
    return {'failures': globals_.get('failures'), 'diffs': globals_.get('diffs')}


def includes():
    out = []
    root = importlib.resources.files('bare_script.include')
    for entry in sorted(root.iterdir(), key=lambda e: e.name):
        if not entry.name.endswith('.bare'):
            continue
        rec = {'name': entry.name}
        try:
            text = entry.read_bytes().decode('utf-8')
            rec['sha256'] = hashlib.sha256(text.encode('utf-8')).hexdigest()
            # the CLI fetcher must serve the same text for `include <name>`
            rec['fetch_same'] = bare_cli._fetch_include({'url': bare_cli._FETCH_INCLUDE_PREFIX + entry.name}) == text  # pylint: disable=protected-access
            script = parse_script(text)
            rec['parsed'] = True
            rec['statements'] = len(script['statements'])
            try:
                validate_script(script)
                rec['valid'] = True
            except Exception as exc:  # pylint: disable=broad-except
                rec['valid'] = False
                rec['valid_error'] = f'{type(exc).__name__}: {exc}'[:300]
            try:
                rec['lint'] = lint_script(script)
            except Exception as exc:  # pylint: disable=broad-except
                rec['lint_error'] = f'{type(exc).__name__}: {exc}'[:300]
        except Exception as exc:  # pylint: disable=broad-except
            rec['parsed'] = False
            rec['error'] = f'{type(exc).__name__}: {exc}'[:300]
        out.append(rec)
    return out


def main():
    items = json.load(sys.stdin)
    out = [None] * len(items)
    case_ix = [i for i, it in enumerate(items) if 'left' in it]
    if case_ix:
        res = run_pairs([(items[i]['left'], items[i]['right']) for i in case_ix])
        for i, r in zip(case_ix, res):
            out[i] = r
    for i, it in enumerate(items):
        if 'exhaustive' in it:
            try:
                out[i] = exhaustive(it['exhaustive'])
            except Exception as exc:  # pylint: disable=broad-except
                out[i] = {'exc': type(exc).__name__, 'msg': str(exc)[:300]}
        elif 'consumer' in it:
            try:
                out[i] = consumer(it['consumer'])
            except Exception as exc:  # pylint: disable=broad-except
                out[i] = {'exc': type(exc).__name__, 'msg': str(exc)[:300]}
        elif 'includes' in it:
            try:
                out[i] = {'includes': includes()}
            except Exception as exc:  # pylint: disable=broad-except
                out[i] = {'exc': type(exc).__name__, 'msg': str(exc)[:300]}
    json.dump(out, sys.stdout)


main()
