"""impl worker: parse_expression on each text (stdin: JSON list of str) -> canonical results."""
import json
import sys

from bare_script import parse_expression
from bare_script.parser import BareScriptParserError


def canon(e):
    (k, v), = e.items()
    if k == 'number':
        if isinstance(v, bool) or not isinstance(v, (int, float)):
            return ['badnum', repr(v)]
        return ['int', str(v)] if isinstance(v, int) else ['num', v.hex()]
    if k == 'string':
        return ['str', v]
    if k == 'variable':
        return ['var', v]
    if k == 'function':
        return ['call', v['name'], [canon(a) for a in v.get('args', [])]]
    if k == 'binary':
        return ['bin', v['op'], canon(v['left']), canon(v['right'])]
    if k == 'unary':
        return ['un', v['op'], canon(v['expr'])]
    if k == 'group':
        return ['group', canon(v)]
    return ['unknown', k]


def one(text):
    try:
        return {'ok': canon(parse_expression(text))}
    except BareScriptParserError as exc:
        return {'err': [exc.error, exc.column_number, exc.line_number, exc.line == text]}
    except Exception as exc:  # pylint: disable=broad-except
        return {'host': type(exc).__name__}


def main():
    sys.setrecursionlimit(10000)
    texts = json.load(sys.stdin)
    out = [one(text) for text in texts]
    # the result depends on the text only: a SECOND pass over the same texts, after everything (accepted and rejected) went through the
    # parser once in this process, must give the same answers
    for text, first in zip(texts, out):
        second = one(text)
        if second != first:
            first['again'] = second
    json.dump(out, sys.stdout)


main()
