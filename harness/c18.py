"""C18 - lint is pure, never fails, and its warnings are semantically justified.

proof         : coq/Props/C18.v over coq/Model/Lint.v (transliteration of lint_script and its three helpers) and the
                interpreter model: totality (the KeyError outcome is unreachable), unknown-label / redefinition exactness,
                the unknown-label warning <-> the runtime error of a taken jump, and soundness of acting on a warning by a
                simulation through the interpreter model (unused label deletion, unused variable / argument renaming: both
                directions; pointless statement deletion: partial).
direct oracle : on the IMPLEMENTATION, independent of the Coq model: lint_script never raises on a schema-valid model, leaves
                the model object unchanged (deep copy), answers the same twice; unknown-label and redefinition warnings equal
                the statically computed sets (harness reference below); every dangling jump, forced to be taken, raises
                "Unknown jump label"; for EVERY unused-variable / unused-argument / unused-label / pointless-statement warning
                the suggested edit is applied to the model and both versions are executed on several global environments
                (directly, and through a driver that calls the affected function): result, log and final globals must agree.
correspondence: Model/Lint.v `lint_result` (rendered strings, in order) = lint_script's return value, by vm_compute.
"""
import copy
import glob
import itertools
import json
import os
import re

from . import core, interp, scriptgen
from .core import cstr, clist, copt

PID = 'C18'
TRUSTED = [
    'Coq 8.16.1 kernel + coqc; vm_compute only to run the model on cases and for Examples (no native_compute)',
    'Print Assumptions of every C18 theorem: Closed under the global context (no axioms)',
    'Model/Lint.v: hand transliteration of model.py lint_script/_is_pointless_expression/_get_variable_assignments_and_uses/'
    '_get_expression_variable_uses (message texts retyped, compared verbatim by the correspondence on every run)',
    'Model/Interp.v (shared): hand transliteration of runtime.py; the library is universally quantified in the soundness theorems '
    'under explicit premises (it does not read statementCount / the function table except through calls); validated by C01/C08 correspondence',
    'the "exactly one key" / required-member shape of statements is carried by the constructors of stmt/expr (schema-valid models only)',
    'harness/c18.py static reference (labels, redefinitions) and edit functions; harness/impl_workers/c18_lint.py, run_script.py',
    'in-place mutation of the Python model object cannot be exhibited by a Gallina model: checked on the implementation only (deep copy)',
]

MAXS = 3000
FRESH = 'c18FreshName'
EXCEEDED = 'Exceeded maximum script statements'


def num(x):
    return ['num', float(x).hex()]


LOG = lambda s: ['expr', None, ['call', 'systemLog', [['str', s]]]]   # noqa: E731
LOGV = lambda tag, v: ['expr', None, ['call', 'systemLog', [['bin', '+', ['str', tag], ['var', v]]]]]   # noqa: E731

# ------------------------------------------------------------------ warnings as data (parsed from the implementation's strings)
_N = r'"(.*)"'
_I = r'\(index (\d+)\)'
PATTERNS = [
    ('empty', r'Empty script'),
    ('gused', rf'Global variable {_N} used {_I} before assignment {_I}'),
    ('fredef', rf'Redefinition of function {_N} {_I}'),
    ('vused', rf'Variable {_N} of function {_N} used {_I} before assignment {_I}'),
    ('uvar', rf'Unused variable {_N} defined in function {_N} {_I}'),
    ('duparg', rf'Duplicate argument {_N} of function {_N} {_I}'),
    ('uarg', rf'Unused argument {_N} of function {_N} {_I}'),
    ('fpointless', rf'Pointless statement in function {_N} {_I}'),
    ('flredef', rf'Redefinition of label {_N} in function {_N} {_I}'),
    ('fulabel', rf'Unused label {_N} in function {_N} {_I}'),
    ('fuklabel', rf'Unknown label {_N} in function {_N} {_I}'),
    ('pointless', rf'Pointless global statement {_I}'),
    ('lredef', rf'Redefinition of global label {_N} {_I}'),
    ('ulabel', rf'Unused global label {_N} {_I}'),
    ('uklabel', rf'Unknown global label {_N} {_I}'),
]
PATTERNS = [(k, re.compile(p, re.S)) for k, p in PATTERNS]


def parse_warning(w):
    for kind, rx in PATTERNS:
        m = rx.fullmatch(w)
        if m:
            n_int = 2 if kind in ('gused', 'vused') else (0 if kind == 'empty' else 1)
            gs = m.groups()
            return (kind,) + tuple(gs[:len(gs) - n_int]) + tuple(int(g) for g in gs[len(gs) - n_int:])
    return None


# ------------------------------------------------------------------ independent static reference
def scopes(model):
    yield (None, None, model)
    for k, s in enumerate(model):
        if s[0] == 'function':
            yield (s[1], k, s[5])


def static_expected(model):
    """(unknown-label warnings, redefinition warnings) as sorted lists of the strings lint must give; plus the
    set of dangling (scope index, label, index of a jump)"""
    unknown, redef, dangling = [], [], []
    seen_f = set()
    for k, s in enumerate(model):
        if s[0] == 'function':
            if s[1] in seen_f:
                redef.append(f'Redefinition of function "{s[1]}" (index {k})')
            seen_f.add(s[1])
            seen_a = set()
            for a in (s[2] or []):
                if a in seen_a:
                    redef.append(f'Duplicate argument "{a}" of function "{s[1]}" (index {k})')
                seen_a.add(a)
    for fname, k, code in scopes(model):
        defined = {}
        for i, s in enumerate(code):
            if s[0] == 'label':
                if s[1] in defined:
                    redef.append(f'Redefinition of global label "{s[1]}" (index {i})' if fname is None else
                                 f'Redefinition of label "{s[1]}" in function "{fname}" (index {i})')
                defined.setdefault(s[1], i)
        last_jump = {}
        for i, s in enumerate(code):
            if s[0] == 'jump':
                last_jump[s[1]] = i
                if s[1] not in defined:
                    dangling.append((k, s[1], i))
        for lb, i in last_jump.items():
            if lb not in defined:
                unknown.append(f'Unknown global label "{lb}" (index {i})' if fname is None else
                               f'Unknown label "{lb}" in function "{fname}" (index {i})')
    return sorted(unknown), sorted(redef), dangling


# ------------------------------------------------------------------ edits
def with_body(model, k, body):
    m = copy.deepcopy(model)
    m[k] = m[k][:5] + [body]
    return m


def fn_candidates(model, fname, text, fn_lint):
    return [k for k, s in enumerate(model) if s[0] == 'function' and s[1] == fname and text in fn_lint.get(str(k), [])]


def edits_for(model, warning, text, fn_lint):
    """[(description, edited model, index of the affected function statement or None)]; [] if the warning asks for no edit;
    None if the warning does not fit the model (the index does not hold what the message says)"""
    kind = warning[0]
    out = []
    if kind == 'ulabel':
        _, lb, i = warning
        if i >= len(model) or model[i] != ['label', lb]:
            return None
        out.append((f'delete global label {lb}@{i}', model[:i] + model[i + 1:], None))
    elif kind == 'pointless':
        _, i = warning
        if i >= len(model) or model[i][0] != 'expr' or model[i][1] is not None:
            return None
        out.append((f'delete global statement @{i}', model[:i] + model[i + 1:], None))
    elif kind in ('fulabel', 'fpointless', 'uvar'):
        fname, i = warning[-2], warning[-1]
        cands = fn_candidates(model, fname, text, fn_lint)
        if not cands:
            return None
        for k in cands:
            body = model[k][5]
            if i >= len(body):
                return None
            if kind == 'fulabel':
                if body[i] != ['label', warning[1]]:
                    return None
                out.append((f'delete label {warning[1]}@{i} in function #{k}', with_body(model, k, body[:i] + body[i + 1:]), k))
            elif kind == 'fpointless':
                if body[i][0] != 'expr' or body[i][1] is not None:
                    return None
                out.append((f'delete statement @{i} in function #{k}', with_body(model, k, body[:i] + body[i + 1:]), k))
            else:
                x = warning[1]
                if body[i][0] != 'expr' or body[i][1] != x:
                    return None
                nb = [['expr', FRESH, s[2]] if s[0] == 'expr' and s[1] == x else s for s in body]
                out.append((f'rename assigned variable {x} in function #{k}', with_body(model, k, nb), k))
    elif kind == 'uarg':
        _, a, fname, k = warning
        if k >= len(model) or model[k][0] != 'function' or model[k][1] != fname or a not in (model[k][2] or []):
            return None
        m = copy.deepcopy(model)
        m[k][2] = [FRESH if p == a else p for p in m[k][2]]
        out.append((f'rename argument {a} of function #{k}', m, k))
    return out


def driver(model, k):
    """all global function statements with #k last, then a call of it whose result is stored and logged"""
    fns = [s for j, s in enumerate(model) if s[0] == 'function' and j != k] + [model[k]]
    call = ['call', model[k][1], [['var', 'x'], ['var', 'y'], num(7), ['str', 'z']]]
    return fns + [['expr', 'r0', call], ['expr', None, ['call', 'systemLog', [['bin', '+', ['str', 'r='], ['var', 'r0']]]]]]


def forced(model, k, lb, i):
    """the model in which the dangling jump at index i of scope k (None: global) is taken first"""
    code = model if k is None else model[k][5]
    code2 = [['jump', FRESH, None]] + code[:i] + [['label', FRESH], ['jump', lb, None]] + code[i + 1:]
    if k is None:
        return code2
    return [model[k][:5] + [code2], ['expr', None, ['call', model[k][1], []]]]


# ------------------------------------------------------------------ generators
EXPR_POOL_G = [['var', 'x'], num(1), ['bin', '+', ['var', 'x'], num(1)], ['un', '!', ['var', 'y']], ['group', ['var', 'y']],
               ['bin', '/', num(1), num(0)], ['bin', '&&', ['var', 'x'], ['var', 'nope']], ['str', 's']]


def rexpr(r, names, depth=2, calls=()):
    c = r.random()
    if depth <= 0 or c < 0.35:
        c2 = r.random()
        if c2 < 0.55:
            return ['var', r.choice(names)]
        if c2 < 0.85:
            return num(r.randint(0, 4))
        return ['str', r.choice(['', 's'])]
    if c < 0.70:
        return ['bin', r.choice(['+', '-', '*', '/', '%', '<', '==', '&&', '||', '**']), rexpr(r, names, depth - 1, calls), rexpr(r, names, depth - 1, calls)]
    if c < 0.80:
        return ['un', r.choice(['!', '-']), rexpr(r, names, depth - 1, calls)]
    if c < 0.87:
        return ['group', rexpr(r, names, depth - 1, calls)]
    if calls and c < 0.95:
        return ['call', r.choice(calls), [rexpr(r, names, depth - 1, calls) for _ in range(r.randint(0, 2))]]
    return ['call', 'if', [rexpr(r, names, depth - 1, calls) for _ in range(r.randint(1, 3))]]


def pure_expr(r, names, depth=2):
    e = rexpr(r, names, depth)
    return e if 'call' not in json.dumps(e) else ['var', r.choice(names)]


def rstmts(r, n, names, assign_to, labels, calls, in_fn):
    out = []
    for _ in range(n):
        c = r.random()
        if c < 0.14:
            out.append(LOG(r.choice('abc')))
        elif c < 0.22:
            out.append(LOGV('v', r.choice(names)))
        elif c < 0.42:
            out.append(['expr', r.choice(assign_to), rexpr(r, names, 2, calls)])
        elif c < 0.52:
            out.append(['expr', None, pure_expr(r, names)])                 # pointless
        elif c < 0.60:
            out.append(['jump', r.choice(labels), None])
        elif c < 0.72:
            out.append(['jump', r.choice(labels), rexpr(r, names, 1, calls)])
        elif c < 0.88:
            out.append(['label', r.choice(labels)])
        elif c < 0.93:
            out.append(['return', rexpr(r, names, 1, calls)] if r.random() < 0.7 else ['return', None])
        elif calls:
            out.append(['expr', r.choice([None] + assign_to), ['call', r.choice(calls), [rexpr(r, names, 1) for _ in range(r.randint(0, 3))]]])
        else:
            out.append(LOG('z'))
    return out


FNAMES = ['ff', 'gg', 'hh']


def lint_model(r):
    """a jump-level model rich in lint situations: user labels, duplicate labels, dangling jumps, duplicate functions and
    arguments, unused variables/arguments, pointless statements (no nested functions: see NESTED_PROBE)"""
    # (some pools use the KEY NAMES of the statement schema as label names: a label is a string, a statement value elsewhere is an object)
    labels = r.choice([['L1', 'L2', 'L3'], ['L1', 'L2', 'L3', 'M', 'N'], ['L1', 'L2'], ['expr', 'jump', 'label', 'exprDone', 'return'],
                       ['L1', 'name', 'function', 'include', 'args']])
    fns = []
    for _ in range(r.randint(0, 4)):
        name = r.choice(FNAMES)
        later = FNAMES[FNAMES.index(name) + 1:]
        args = None if r.random() < 0.15 else [r.choice(['p', 'q', 'p', 'a', '_', '_', '_u']) for _ in range(r.randint(1, 4))]
        local_names = ['a', 'b', 'p', 'q', 'x']
        # local variables may hold function values and be called (a call is a use of the name)
        callables = later + ['systemLog'] + (['a', 'u'] if r.random() < 0.5 else [])
        body = rstmts(r, r.randint(0, 9), local_names + (['systemLog'] + later if r.random() < 0.3 else []), ['a', 'b', 'p', 'u'] + ([''] if r.random() < 0.15 else []),
                      labels + ['H'], callables, True)
        fns.append(['function', name, args, False, r.random() < 0.2, body])
    # (the empty string is a schema-valid variable name: an assignment to it is an assignment, not a pointless statement)
    body = rstmts(r, r.randint(0, 14), ['x', 'y'], ['x', 'y'] + ([''] if r.random() < 0.15 else []), labels, [f[1] for f in fns] + ['hh'], False)
    # functions first (mostly), sometimes interleaved
    out = list(body)
    for f in fns:
        out.insert(0 if r.random() < 0.7 else r.randint(0, len(out)), f)
    return out


ALPHABET = [
    ['label', 'L1'],
    ['label', 'L2'],
    ['jump', 'L1', None],
    ['jump', 'L2', ['bin', '<', ['var', 'x'], num(2)]],
    ['expr', None, ['var', 'x']],
    ['expr', 'x', ['bin', '+', ['var', 'x'], num(1)]],
    LOGV('x=', 'x'),
    ['return', ['var', 'x']],
    ['expr', 'u', ['var', 'systemLog']],
    ['expr', None, ['call', 'u', [['var', 'x']]]],
]


def weird_models():
    """schema-valid but unusual models (the `malformed stream` of this property: lint must not fail on them)"""
    deep = ['var', 'x']
    for _ in range(200):
        deep = ['group', ['un', '!', deep]]
    return [
        [],
        [['function', 'ff', None, False, False, []]],
        [['function', 'ff', ['a'], True, True, [['return', None]]], ['function', 'ff', ['a', 'a', 'a'], False, False, [['label', 'a'], ['label', 'a']]]],
        [['label', 'with space'], ['jump', 'with space', None], ['label', 'é中'], ['jump', 'café', ['var', 'x']]],
        [['expr', None, deep], ['expr', 'x', deep]],
        [['include', [['nowhere.bare', False], ['sys.bare', True]]], ['label', 'A']],
        [['expr', None, ['int', '3']], ['expr', None, ['bin', '**', ['int', '2'], ['int', '10']]], ['return', ['int', '1']]],
        [['expr', 'null', ['var', 'true']], ['expr', None, ['var', 'null']], ['jump', 'x', ['var', 'false']], ['label', 'x']],
        [['function', 'ff', ['x', 'y'], False, False, [['expr', 'x', ['var', 'y']], ['expr', 'y', ['var', 'x']], ['expr', 'ff', num(1)], ['return', ['call', 'ff', []]]]]],
        [['expr', None, ['call', 'if', []]], ['expr', None, ['call', 'nosuch', [['var', 'x']]]]],
        [['return', None], ['label', 'after'], ['expr', None, ['var', 'x']]],
        [['function', 'ff', ['p'], False, False, [['label', 'L'], ['expr', 'v', ['var', 'p']], ['expr', 'v', ['call', 'systemLog', [['str', 'side']]]],
                                                  ['jump', 'L', ['bin', '<', ['var', 'p'], num(0)]]]],
         ['expr', None, ['call', 'ff', [num(1)]]]],
    ]


# known finding F26: lint does not visit a function statement nested in a function body (schema-valid, never produced by the
# parser).  ONE dedicated probe; every generator above is free of nested functions.
NESTED_PROBE = [['function', 'out', ['a'], False, False, [['function', 'inner', ['b'], False, False, [['jump', 'zz', None]]],
                                                          ['return', ['call', 'inner', []]]]],
                ['expr', None, ['call', 'out', []]]]


def envs():
    pool = interp.Pool()
    base = {'g1': interp.vflt(2.0), 'g2': ['str', 'ab'], 'depth': interp.vflt(0.0)}
    e1 = dict(base, x=interp.vflt(0.0), y=['null'], g0=pool.arr([interp.vflt(1), interp.vflt(2), ['str', 'x']]))
    e2 = dict(base, x=interp.vflt(1.0), y=['str', 's'], g0=['null'])
    e3 = dict(base, x=interp.vflt(5.0), y=interp.vflt(2.0), g0=pool.arr([]), q=interp.vflt(9.0), a=['str', 'ga'])
    return [e1, e2, e3]


def observable(res):
    return {k: res.get(k) for k in ('res', 'rt', 'parse', 'host', 'log', 'globals')}


def budget_hit(res):
    return str(res.get('rt', '')).startswith(EXCEEDED) or res.get('host') in ('DidNotTerminate', 'RecursionError')


def run(tier):
    chk = core.Check(PID, tier)
    chk.assumptions = ['models are schema-valid (validate_script accepts them); CPython recursion limit out of scope',
                       f'behaviour comparison under maxStatements={MAXS}; a pair is skipped when either run exhausts that budget '
                       '(deleting a statement changes statementCount)']
    proof_ok = chk.prove('Props/C18.v')
    model_ok = proof_ok or chk.model_ready(['Model/Lint.vo'])
    r = core.rng('c18')
    quick = tier == 'quick'

    # ---------------- cases
    cases = []      # (tag, payload for the lint worker)
    for path in sorted(glob.glob(os.path.join(core.VERIF, 'corpus', 'C18', '*.json'))):
        with open(path, encoding='utf-8') as fh:
            cases.append(('corpus', {'model': json.load(fh)['model']}))
    for path in sorted(glob.glob(os.path.join(core.REPO, 'src', 'bare_script', 'include', '*.bare'))):
        with open(path, encoding='utf-8') as fh:
            cases.append(('shipped', {'text': fh.read()}))
    for m in weird_models():
        cases.append(('weird', {'model': m}))
    cases.append(('nested-probe', {'model': NESTED_PROBE}))
    maxlen = 3 if quick else 4
    for n in range(0, maxlen + 1):
        for combo in itertools.product(range(len(ALPHABET)), repeat=n):
            code = [ALPHABET[i] for i in combo]
            cases.append((f'global-len{n}', {'model': copy.deepcopy(code)}))
            cases.append((f'fn-len{n}', {'model': [['function', 'ff', ['p', 'q'], False, False, copy.deepcopy(code)],
                                                   ['expr', 'x', ['call', 'ff', [['var', 'x'], ['var', 'y']]]], LOGV('x=', 'x')]}))
    for _ in range(500 if quick else 8000):
        cases.append(('jump-random', {'model': lint_model(r)}))
    for _ in range(150 if quick else 1500):
        prog = scriptgen.gen_program(r, max_depth=3)
        cases.append(('structured', {'text': scriptgen.program_text(prog)}))

    # arguments / variables that are assigned on a path that a call may skip, textually before their first read
    for guard_ in ('if b:', 'if b && true:', 'while b:'):
        for setter in ('a = 20', 'a = a + 5'):
            for tail in ('return a', "systemLog('a=' + a)\n    return arrayNew(a, b)"):
                end = 'endif' if guard_.startswith('if') else 'endwhile'
                extra = '' if guard_.startswith('if') else '\n        b = false'
                text = (f"function pa(a, b):\n    {guard_}\n        {setter}{extra}\n    {end}\n    {tail}\nendfunction\n"
                        "systemLog('r ' + pa(1, false))\nsystemLog('s ' + pa(1, true))\nreturn pa(x, y)\n")
                cases.append(('assigned-on-a-path', {'text': text}))
    cases.append(('assigned-on-a-path', {'text': "function pb(a, b):\n    jumpif (b) skip\n    a = 7\n    skip:\n    return a\nendfunction\n"
                                                 "return arrayNew(pb(1, true), pb(1, false), pb(x, y))\n"}))

    import time as _t
    t0 = _t.time()
    lint_res = core.run_impl('c18_lint', [c for _, c in cases])
    chk.notes.append(f'lint phase {_t.time() - t0:.1f}s')
    # "the same model always gives the same warnings": also in ANOTHER interpreter process with another string-hash seed (a warning
    # list built by iterating a set would come out in a different order there)
    sub = list(range(0, len(cases), max(1, len(cases) // 400)))
    for seed in ('1', '77'):
        again = core.run_impl('c18_lint', [cases[i][1] for i in sub], env=core.impl_env({'PYTHONHASHSEED': seed}))
        for i, res2 in zip(sub, again):
            if res2 != lint_res[i] and len(chk.oracle_fail) < 20:
                chk.oracle_fail.append({'class': 'warnings-depend-on-the-process-hash-seed', 'source': json.dumps(cases[i][1])[:600], 'input': cases[i][1],
                                        'PYTHONHASHSEED': seed, 'seed0': lint_res[i], 'other': res2})

    # ---------------- direct oracle, static part
    t00 = _t.time()
    dist, wkinds = {}, {}
    jobs = []            # run_script payloads
    job_index = {}

    def job(model, env_i):
        key = json.dumps([model, env_i])
        if key not in job_index:
            job_index[key] = len(jobs)
            jobs.append({'model': model, 'globals': ENVS[env_i], 'max': MAXS, 'timeout': 20})
        return job_index[key]

    ENVS = envs()
    nested_probe = None
    pairs = []           # (case index, warning text, description, [(job original, job edited)])
    forced_jobs = []     # (case index, label, job)
    nontrivial = set()
    skipped_invalid = 0
    for ci, ((tag, payload), res) in enumerate(zip(cases, lint_res)):
        dist[tag] = dist.get(tag, 0) + 1
        src = payload.get('text') or repr(payload.get('model'))
        if 'build_error' in res:
            chk.oracle_fail.append({'class': 'case-could-not-be-built', 'source': src, 'got': res})
            continue
        if not res.get('valid'):
            skipped_invalid += 1        # outside the quantifier (our generators should not produce these)
            chk.notes.append(f'not schema-valid, skipped: {src[:120]} {res.get("valid_error")}')
            continue
        model = res.get('model')
        if 'exc' in res:
            chk.oracle_fail.append({'class': 'lint-raised', 'source': src, 'model': model, 'got': {'exc': res['exc'], 'msg': res.get('msg')}})
            continue
        if res.get('mutated') or res.get('mutated2'):
            chk.oracle_fail.append({'class': 'lint-modified-the-model', 'source': src, 'model': model})
            continue
        if res['lint2'] != res['lint']:
            chk.oracle_fail.append({'class': 'second-call-differs', 'source': src, 'model': model, 'expected': res['lint'], 'got': res['lint2']})
            continue
        warnings = res['lint']
        parsed = [parse_warning(w) for w in warnings]
        if any(p is None for p in parsed):
            chk.oracle_fail.append({'class': 'warning-of-unknown-form', 'source': src, 'model': model,
                                    'got': [w for w, p in zip(warnings, parsed) if p is None]})
            continue
        for p in parsed:
            wkinds[p[0]] = wkinds.get(p[0], 0) + 1
        if warnings:
            nontrivial.add(src)
        if tag == 'nested-probe':
            nested_probe = (ci, job(model, 0))
            continue
        exp_unknown, exp_redef, dangling = static_expected(model)
        got_unknown = sorted(w for w, p in zip(warnings, parsed) if p[0] in ('uklabel', 'fuklabel'))
        got_redef = sorted(w for w, p in zip(warnings, parsed) if p[0] in ('fredef', 'duparg', 'flredef', 'lredef'))
        if got_unknown != exp_unknown:
            chk.oracle_fail.append({'class': 'unknown-label-warnings-not-exact', 'source': src, 'model': model,
                                    'expected': exp_unknown, 'got': got_unknown})
        if got_redef != exp_redef:
            chk.oracle_fail.append({'class': 'redefinition-warnings-not-exact', 'source': src, 'model': model,
                                    'expected': exp_redef, 'got': got_redef})
        if (len(model) == 0) != ('Empty script' in warnings):
            chk.oracle_fail.append({'class': 'empty-script-warning-wrong', 'source': src, 'model': model, 'got': warnings})
        # the lint of a function statement alone = its part of the whole lint (attribution of function-scope warnings)
        # each dangling jump, forced to be taken, raises the runtime error
        if tag != 'shipped':
            for k, lb, i in dangling[:6]:
                forced_jobs.append((ci, lb, job(forced(model, k, lb, i), 0)))
        # the suggested edit for every semantic warning
        for w, p in zip(warnings, parsed):
            eds = edits_for(model, p, w, res.get('fn_lint', {}))
            if eds is None:
                chk.oracle_fail.append({'class': 'warning-does-not-fit-the-model', 'source': src, 'model': model, 'got': w})
                continue
            for desc, edited, k in eds:
                pj = [(job(model, e), job(edited, e)) for e in range(len(ENVS))]
                if k is not None:
                    pj += [(job(driver(model, k), e), job(driver(edited, k), e)) for e in ((0, 2) if quick else range(len(ENVS)))]
                pairs.append((ci, w, desc, pj))
        # plain runs also serve the converse of the unknown-label clause
        if tag != 'shipped' and not any(pp[0] == ci for pp in pairs[-1:]):
            pairs.append((ci, None, 'plain run', [(job(model, 0), job(model, 0))]))

    t0 = _t.time()
    run_res = core.run_impl('run_script', jobs) if jobs else []
    chk.notes.append(f'static {t0 - t00:.1f}s, execution phase {_t.time() - t0:.1f}s')
    t0 = _t.time()

    # ---------------- direct oracle, execution part
    compared = skipped_budget = 0
    if nested_probe:
        ci, j = nested_probe
        if run_res[j].get('rt') == 'Unknown jump label "zz"' and not any('"zz"' in w for w in lint_res[ci]['lint']):
            chk.oracle_fail.append({'class': 'nested-function-scope-not-linted', 'source': repr(NESTED_PROBE), 'model': NESTED_PROBE,
                                    'expected': 'an unknown-label warning for label "zz" of the nested function "inner"',
                                    'got': {'lint': lint_res[ci]['lint'], 'run': observable(run_res[j])}})
    for ci, lb, j in forced_jobs:
        got = run_res[j]
        if got.get('rt') != f'Unknown jump label "{lb}"':
            chk.oracle_fail.append({'class': 'reported-unknown-label-does-not-raise-when-its-jump-is-taken', 'model': jobs[j]['model'],
                                    'label': lb, 'expected': f'Unknown jump label "{lb}"', 'got': observable(got)})
    flagged = set()
    for ci, w, desc, pj in pairs:
        model = lint_res[ci].get('model')
        unknown_labels = {u[1] for u in static_expected(model)[2]}
        for jo, je in pj:
            a, b = run_res[jo], run_res[je]
            m = re.fullmatch(r'Unknown jump label "(.*)"', str(a.get('rt', '')), re.S)
            if m and jobs[jo]['model'] == model and m.group(1) not in unknown_labels and (ci, 'uk') not in flagged:
                flagged.add((ci, 'uk'))
                chk.oracle_fail.append({'class': 'runtime-unknown-label-without-a-warning', 'model': model, 'got': a.get('rt'),
                                        'lint': lint_res[ci]['lint']})
            if w is None:
                continue
            if budget_hit(a) or budget_hit(b):
                skipped_budget += 1
                continue
            compared += 1
            if observable(a) != observable(b) and (ci, w) not in flagged:
                flagged.add((ci, w))
                chk.oracle_fail.append({'class': 'acting-on-the-warning-changes-behaviour', 'warning': w, 'edit': desc,
                                        'model': jobs[jo]['model'], 'edited': jobs[je]['model'], 'globals': jobs[jo]['globals'],
                                        'expected': observable(a), 'got': observable(b)})

    # ---------------- correspondence
    chk.notes.append(f'compare phase {_t.time() - t0:.1f}s')
    t0 = _t.time()
    corr_n = 0
    if model_ok:
        budget = {'global-len3': 200 if quick else 1000, 'fn-len3': 200 if quick else 1000, 'global-len4': 500, 'fn-len4': 500, 'jump-random': 400 if quick else 3000,
                  'structured': 150 if quick else 600}
        by_tag = {}
        for i, (tag, _) in enumerate(cases):
            by_tag.setdefault(tag, []).append(i)
        pick = []
        for tag, idxs in by_tag.items():
            if tag in budget and len(idxs) > budget[tag]:
                idxs = sorted(r.sample(idxs, budget[tag]))
            pick += idxs
        terms, used = [], []
        for i in pick:
            res = lint_res[i]
            if 'model' not in res or not res.get('valid') or 'badnum' in json.dumps(res['model']):
                continue
            exp = copt(clist([cstr(s) for s in res['lint']])) if 'lint' in res else 'None'
            terms.append(f'check_lint {scriptgen.script_coq(res["model"])} {exp}')
            used.append(i)
        # balance the shards by text size (the shipped files are large): heaviest first into the lightest shard with room
        shard = 100
        n_sh = max(1, -(-len(terms) // shard))
        caps = [shard] * (n_sh - 1) + [len(terms) - shard * (n_sh - 1)]
        buckets, loads = [[] for _ in range(n_sh)], [0] * n_sh
        for j in sorted(range(len(terms)), key=lambda j: -len(terms[j])):
            b = min((b for b in range(n_sh) if len(buckets[b]) < caps[b]), key=lambda b: loads[b])
            buckets[b].append(j)
            loads[b] += len(terms[j])
        order = [j for b in buckets for j in b]
        terms, used = [terms[j] for j in order], [used[j] for j in order]
        bad, errors = core.coq_bools('c18', 'Model.Base Model.Num Model.ExprParser Model.Script Model.Lint', terms, shard=shard)
        corr_n = len(used)
        for k, log in errors:
            chk.corr_fail.append({'class': 'case-file-did-not-evaluate', 'shard': k, 'log': log[-800:]})
        for j in bad[:10]:
            i = used[j]
            shown = core.coq_show('c18', 'Model.Base Model.Num Model.ExprParser Model.Script Model.Lint',
                                  f'option_map (map render) (lint_raw {scriptgen.script_coq(lint_res[i]["model"])})') if len(terms[j]) < 20000 else ''
            chk.corr_fail.append({'class': 'model-differs', 'model': lint_res[i]['model'], 'impl': lint_res[i].get('lint', lint_res[i].get('exc')),
                                  'coq': shown[-1500:]})
        if len(bad) > 10:
            chk.corr_fail.append({'class': 'model-differs', 'more': len(bad) - 10})

    chk.notes.append(f'correspondence phase {_t.time() - t0:.1f}s')
    chk.coverage = {
        'evaluations': len(cases),
        'distinct_nontrivial': len(nontrivial),
        'rule': '+ round 7: argument names beginning with an underscore (duplicates are redefinitions); models linted on the implementation; non-trivial = at least one warning, distinct by model/source; every semantic '
                'warning is acted on and both versions executed on %d environments (+ a driver calling the affected function)' % len(ENVS),
        'exhaustive': True,
        'exhaustive_part': f'all statement lists of length 0..{maxlen} over the {len(ALPHABET)}-statement alphabet, as global code and as a function body',
        'alphabet': [repr(a) for a in ALPHABET],
        'distribution': dist,
        'warning_kinds_seen': wkinds,
        'edits_applied': sum(1 for p in pairs if p[1] is not None),
        'executions': len(jobs),
        'behaviour_pairs_compared': compared,
        'pairs_skipped_budget': skipped_budget,
        'forced_dangling_jumps': len(forced_jobs),
        'not_schema_valid_skipped': skipped_invalid,
        'correspondence_cases': corr_n,
        'samples': [{'model': lint_res[i].get('model'), 'lint': lint_res[i].get('lint')} for i in (30, 900, len(cases) - 400) if 0 <= i < len(cases)
                    and len(json.dumps(lint_res[i].get('model'))) < 3000],
    }
    return chk.finish(TRUSTED)
