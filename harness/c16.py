"""C16 - datetime construction, arithmetic and ISO text are correct in any time zone.

proof        : coq/Props/C16.v over Model/Calendar.v (validation bounds / roll-over divisors REGENERATED from library.py,
               regexes of value.py REGENERATED into Gen/Regexes.v and used by Model/CalendarRx.v)
direct oracle: every case runs through the public script API (execute_script) in a subprocess whose TZ is one of the
               eight zones of the property; the reference is written independently with Python's datetime + timedelta
               (construction, getters, +/-), Python's own astimezone() in the same zone (which wall times exist, the offset
               text) and zoneinfo + a strict hand-written ISO grammar (parsing).
correspondence: Model/Calendar.v (datetime_new, fields/getters, iso_format, iso_parse, dt_add_ms, dt_sub_float) and
               Model/CalendarRx.v (the regex-engine variants) evaluated inside Coq against the implementation's results;
               the zone enters the model as the finite offset table the worker dumps from Python for the sampled instants.
"""
import datetime
import itertools
from zoneinfo import ZoneInfo

from . import core
from .core import cstr, cZ, clist

PID = 'C16'
ZONES = ['UTC', 'America/New_York', 'Europe/London', 'Asia/Kolkata', 'Asia/Kathmandu', 'Australia/Lord_Howe', 'Pacific/Chatham',
         'Etc/GMT+12']
# further zones for the wall-time / ISO round-trip family only: WEST of Greenwich with a fractional-hour offset, and southern-hemisphere DST
EXTRA_ZONES = ['America/St_Johns', 'Pacific/Marquesas', 'America/Caracas', 'America/Santiago', 'Asia/Tehran']
EPOCH = datetime.datetime(1970, 1, 1)
US = datetime.timedelta(microseconds=1)
UTC = datetime.timezone.utc
MIN_US = (datetime.datetime.min - EPOCH) // US
MAX_US = (datetime.datetime.max - EPOCH) // US

TRUSTED = [
    'Coq 8.16.1 kernel + coqc; vm_compute for the table obligations, the examples and for running the model (no native_compute)',
    'Print Assumptions of every C16 theorem: Closed under the global context (no axioms)',
    'tools/translate_calendar.py: copies the numeric constraints of _DATETIME_NEW_ARGS and the floor-division divisors of '
    '_datetime_new into coq/Gen/CalendarTables.v (fail-closed on any other shape); tools/translate.py: the regexes of value.py',
    'Model/Calendar.v: hand transliteration of _datetime_new (validation, carries, the two while loops), the getters, value_string '
    '(datetime branch), value_parse_datetime, the datetime +/- operators (validated by the correspondence)',
    'CPython datetime semantics as modelled: datetime() range checks, naive astimezone() = attach off_local / go to UTC / '
    'come back with off_utc, fromisoformat on texts matching _R_DATETIME, timedelta arithmetic exact on integral floats below 2^53',
    'the float arithmetic of _datetime_new on integral floats (// - * +) is exact below 2^53 (script numbers are floats; the model is over Z)',
    'the float path of datetime - datetime (total_seconds()*1000 rounded) is modelled in SpecFloat (dt_sub_float: stdlib '
    'SpecFloat division/multiplication/addition at binary64) and tied to the implementation by the correspondence; about that '
    'model C16_sub_rounding / C16_sub_rounding_in_range prove (d+n)-d = n for all datetimes (Z-only rounding-error analysis, no axioms)',
    'harness/c16.py references: Python datetime/timedelta arithmetic, Python astimezone() in the process zone for existence and offsets, '
    'zoneinfo for parsing; the tz database of the sandbox (/usr/share/zoneinfo)',
]


# ------------------------------------------------------------------ helpers / independent references
def us_to_dt(us):
    return EPOCH + us * US


def dt_to_us(d):
    return (d - EPOCH) // US


def fields_of_us(us):
    d = us_to_dt(us)
    return [d.year, d.month, d.day, d.hour, d.minute, d.second, d.microsecond]


def ref_new(args):
    """the property's reading of datetimeNew: first of the normalised month + the remaining components as one timedelta"""
    if any(not isinstance(a, int) for a in args):
        if any(isinstance(a, float) and a != int(a) for a in args):
            return None
        args = [int(a) for a in args]
    y, mo, d, h, mi, s, ms = args
    if y < 100 or d < -10000 or d > 10000:
        return None
    yy = y + (mo - 1) // 12
    mm = (mo - 1) % 12 + 1
    try:
        r = datetime.datetime(yy, mm, 1) + datetime.timedelta(days=d - 1, hours=h, minutes=mi, seconds=s, milliseconds=ms)
    except (ValueError, OverflowError):
        return None
    return dt_to_us(r)


def off_text(o_us):
    o = o_us // 1000000
    a = abs(o)
    return ('-' if o < 0 else '+') + f'{a // 3600:02d}:{a // 60 % 60:02d}'


def ref_iso_text(l_us, o_us):
    y, mo, d, h, mi, s, us = fields_of_us(l_us)
    t = f'{y:04d}-{mo:02d}-{d:02d}T{h:02d}:{mi:02d}:{s:02d}'
    if us:
        t += f'.{us // 1000:03d}'
    return t + off_text(o_us)


ASCII_DIGITS = '0123456789'


def _digits(s, uni):
    if uni:
        return all(ch.isdecimal() for ch in s) and s != ''
    return all(ch in ASCII_DIGITS for ch in s) and s != ''


def ref_parse_shape(text):
    """strict ISO grammar accepted by the property, with the three documented leniencies of the code marked:
       returns None (not ISO) or (kind, naive fields, offset seconds, leniencies)"""
    len_ = []
    t = text
    # date only
    body = t[:-1] if t.endswith('\n') else t
    if len(body) == 10 and body[4] == '-' and body[7] == '-' and _digits(body[0:4] + body[5:7] + body[8:10], True):
        if t != body:
            len_.append('trailing-newline')
        if not _digits(body[0:4] + body[5:7] + body[8:10], False):
            len_.append('unicode-digits')
        return ('date', [int(body[0:4]), int(body[5:7]), int(body[8:10]), 0, 0, 0, 0], None, len_)
    # datetime
    if len(t) < 20 or t[4] != '-' or t[7] != '-' or t[10] != 'T' or t[13] != ':' or t[16] != ':':
        return None
    if not _digits(t[0:4] + t[5:7] + t[8:10] + t[11:13] + t[14:16] + t[17:19], False):
        return None
    rest = t[19:]
    us = 0
    if rest.startswith('.'):
        j = 1
        while j < len(rest) and rest[j] in ASCII_DIGITS:
            j += 1
        frac = rest[1:j]
        if not 1 <= len(frac) <= 6:
            return None
        us = int(frac) * 10 ** (6 - len(frac))
        rest = rest[j:]
    if rest == 'Z':
        off = 0
    elif len(rest) == 6 and rest[0] in '+-' and rest[3] == ':' and _digits(rest[1:3] + rest[4:6], False):
        hh, mm = int(rest[1:3]), int(rest[4:6])
        if mm >= 60:
            len_.append('offset-minutes-ge-60')
        off = (hh * 3600 + mm * 60) * (-1 if rest[0] == '-' else 1)
    else:
        return None
    return ('datetime', [int(t[0:4]), int(t[5:7]), int(t[8:10]), int(t[11:13]), int(t[14:16]), int(t[17:19]), us], off, len_)


def ref_parse(text, tz):
    """expected result of datetimeISOParse(text) in zone tz: ('null',) | ('dt', us, u or None, leniencies) | ('edge',)"""
    sh = ref_parse_shape(text)
    if sh is None:
        return ('null',)
    kind, f, off, len_ = sh
    try:
        naive = datetime.datetime(*f)
    except ValueError:
        return ('null',)
    if kind == 'date':
        return ('dt', dt_to_us(naive), None, len_)
    if abs(off) >= 86400:
        return ('null',)
    u = dt_to_us(naive) - off * 1000000
    if not MIN_US <= u <= MAX_US:
        return ('null',)
    if u < MIN_US + 2 * 86400 * 10**6 or u > MAX_US - 2 * 86400 * 10**6:
        return ('edge', u)
    loc = us_to_dt(u).replace(tzinfo=UTC).astimezone(ZoneInfo(tz)).replace(tzinfo=None)
    lu = dt_to_us(loc)
    return ('dt', lu - lu % 1000, u, len_)


def transitions(tz, years):
    """UTC instants (seconds since the epoch) at which the zone's offset changes, found by scanning with zoneinfo"""
    z = ZoneInfo(tz)

    def off(sec):
        return (EPOCH + datetime.timedelta(seconds=sec)).replace(tzinfo=UTC).astimezone(z).utcoffset().total_seconds()
    res = []
    for y in years:
        pts = [int((datetime.datetime(y, m, 1) - EPOCH).total_seconds()) for m in range(1, 13)]
        pts.append(int((datetime.datetime(y + 1, 1, 1) - EPOCH).total_seconds()))
        for a, b in zip(pts, pts[1:]):
            oa, ob = off(a), off(b)
            if oa == ob:
                continue
            lo, hi = a, b
            while hi - lo > 1:
                mid = (lo + hi) // 2
                if off(mid) == oa:
                    lo = mid
                else:
                    hi = mid
            res.append((hi, int(oa), int(ob)))
    return res


# ------------------------------------------------------------------ generators
def gen_cases(tier, r):
    quick = tier == 'quick'
    tasks = []      # (task dict, tag)

    def add(task, tag):
        tasks.append((task, tag))

    zi = itertools.cycle(ZONES)
    # --- corpus: natural boundary cases of the roll-over code
    corpus = [[2022, 0, 15, 6, 30, 15, 250], [2022, 12, 31, 23, 59, 59, 999], [2022, 13, 1, 0, 0, 0, 0], [2022, 24, 15, 0, 0, 0, 0],
              [2022, -12, 1, 0, 0, 0, 0], [2022, 26, 21, 0, 0, 0, 0], [2022, -14, 21, 0, 0, 0, 0], [2024, 2, 29, 0, 0, 0, 0],
              [2023, 2, 29, 0, 0, 0, 0], [2024, 3, 0, 0, 0, 0, 0], [2023, 3, 0, 0, 0, 0, 0], [2024, 1, 0, 0, 0, 0, 0],
              [2024, 1, 1, 24, 0, 0, 0], [2024, 1, 1, -1, 0, 0, 0], [2024, 1, 1, 0, 60, 0, 0], [2024, 1, 1, 0, -1, 0, 0],
              [2024, 1, 1, 0, 0, 60, 0], [2024, 1, 1, 0, 0, -1, 0], [2024, 1, 1, 0, 0, 0, 1000], [2024, 1, 1, 0, 0, 0, -1],
              [2024, 12, 31, 23, 59, 59, 1000], [1900, 2, 29, 0, 0, 0, 0], [2000, 2, 29, 0, 0, 0, 0], [2100, 2, 29, 0, 0, 0, 0],
              [100, 1, 1, 0, 0, 0, 0], [99, 1, 1, 0, 0, 0, 0], [9000, 40, 10000, 5000, 5000, 5000, 5000],
              [100, -30, -10000, -5000, -5000, -5000, -5000], [2024, 1, 10001, 0, 0, 0, 0], [2024, 1, -10001, 0, 0, 0, 0],
              [9999, 12, 31, 23, 59, 59, 999], [9999, 12, 32, 0, 0, 0, 0], [2024, 5, 17, 0, 0, 0, 0]]
    for args in corpus:
        for tz in ZONES if not quick else ZONES[:4]:
            add({'k': 'new', 'tz': tz, 'args': args, 'lit': True}, 'corpus')
    # --- exhaustive small family: every month -30..40 x boundary days, four years (common, leap, century, 400-year)
    days = [-1, 0, 1, 28, 29, 30, 31, 32, 59, 60, 61, 365, 366, 367]
    years = [2023, 2024, 1900, 2000] if quick else [2023, 2024, 1900, 2000, 2100, 1999]
    for y in years:
        for mo in range(-30, 41):
            for d in days:
                add({'k': 'new', 'tz': next(zi), 'args': [y, mo, d, 0, 0, 0, 0], 'lit': (mo + d) % 5 == 0}, 'exh-month-day')
    # every single-component overflow of the time of day around the carries
    for comp, vals in ((3, [-25, -24, -1, 0, 23, 24, 25, 47, 48]), (4, [-61, -60, -1, 0, 59, 60, 61, 1440, -1440]),
                       (5, [-61, -60, -1, 0, 59, 60, 61, 86400, -86400]), (6, [-1001, -1000, -1, 0, 999, 1000, 1001, 86400000, -86400000])):
        for v in vals:
            for base in ([2024, 2, 29], [2023, 12, 31], [2024, 1, 1], [2024, 3, 1]):
                args = base + [0, 0, 0, 0]
                args[comp] = v
                add({'k': 'new', 'tz': next(zi), 'args': args, 'lit': True}, 'exh-time-carry')
    # --- structured random over the whole quantifier, per zone
    n_rand = 900 if quick else 12000
    for tz in ZONES:
        for i in range(n_rand):
            c = r.random()
            y = r.randint(100, 9000) if c < 0.5 else r.randint(1850, 2100)
            mo = r.randint(-30, 40)
            d = r.choice([r.randint(-10000, 10000), r.randint(-40, 70), r.randint(1, 28)])
            small = r.random() < 0.3
            h = r.randint(0, 23) if small else r.randint(-5000, 5000)
            mi = r.randint(0, 59) if small else r.randint(-5000, 5000)
            s = r.randint(0, 59) if small else r.randint(-5000, 5000)
            ms = r.randint(0, 999) if small else r.randint(-5000, 5000)
            add({'k': 'new', 'tz': tz, 'args': [y, mo, d, h, mi, s, ms], 'lit': i % 3 != 0}, 'random-new')
    # rejected arguments (validation): year < 100, |day| > 10000, non-integers
    for tz in ZONES[:3]:
        for args in ([99, 1, 1, 0, 0, 0, 0], [-5, 1, 1, 0, 0, 0, 0], [2024, 1, 10001, 0, 0, 0, 0], [2024, 1, -10001, 0, 0, 0, 0],
                     [2024.5, 1, 1, 0, 0, 0, 0], [2024, 1.5, 1, 0, 0, 0, 0], [2024, 1, 1, 0.25, 0, 0, 0], [2024, 1, 1, 0, 0, 0, 0.5]):
            add({'k': 'new', 'tz': tz, 'args': args, 'lit': False}, 'rejected-args')
    # --- wall times around every kind of offset change of each zone (DST gaps/folds, historical offset changes)
    n_tr = 22 if quick else 400
    deltas = [-3600000, -1800000, -1000, -1, 0, 1, 1000, 1799999, 1800000, 3599999, 3600000]
    n_transitions = {}
    for tz in ZONES:
        trs = transitions(tz, list(range(1800, 2101)) + [2499, 5000, 8999])
        n_transitions[tz] = len(trs)
        if len(trs) > n_tr:
            keep = trs[:3] + trs[-3:] + r.sample(trs[3:-3], n_tr - 6)
        else:
            keep = trs
        for (t, oa, ob) in keep:
            for base in (t + oa, t + ob):
                for dl in deltas:
                    w = base * 1000 + dl        # milliseconds of the wall clock
                    us = w * 1000
                    if not MIN_US + 10**12 < us < MAX_US - 10**12:
                        continue
                    f = fields_of_us(us)
                    add({'k': 'new', 'tz': tz, 'args': f[:6] + [f[6] // 1000], 'lit': dl % 2 == 0}, 'transition-wall')
            # d + n aimed INTO the wall-clock interval a forward change skips (and into the repeated interval of a backward one): d exists,
            # the sum is the plain wall-clock sum, and (d + n) - d is n
            lo, hi = sorted((t + oa, t + ob))
            if hi > lo:
                for back in (3600, 86400, 30 * 86400 + 1234, -7200, -86400):
                    d_us = (lo - back) * 1000000
                    if not MIN_US + 10**13 < d_us < MAX_US - 10**13:
                        continue
                    f = fields_of_us(d_us)
                    n = back * 1000 + r.randrange((hi - lo) * 1000)
                    add({'k': 'add', 'tz': tz, 'args': f[:6] + [f[6] // 1000], 'n': n, 'nfloat': back % 7 == 0}, 'add-into-transition')
            # a few values that are not whole milliseconds
            for base in (t + oa, t + ob):
                add({'k': 'wall', 'tz': tz, 'us': base * 1000000 + r.choice([1, 499, 500, 999, 123456, 999999])}, 'wall-sub-ms')
    # random wall times 1850..2100 (where the zones' offsets changed) and far past/future
    n_wall = 250 if quick else 5000
    for tz in ZONES:
        for _ in range(n_wall):
            y = r.choice([r.randint(1850, 2100), r.randint(100, 9000)])
            us = dt_to_us(datetime.datetime(y, 1, 1)) + r.randrange(366 * 86400 * 1000) * 1000
            if r.random() < 0.15:
                us += r.randrange(1000)
            add({'k': 'wall', 'tz': tz, 'us': us}, 'random-wall')
    for tz in EXTRA_ZONES:
        for _ in range(n_wall // 3):
            y = r.choice([r.randint(1900, 2100), r.randint(1900, 2100), r.randint(100, 9000)])
            us = dt_to_us(datetime.datetime(y, 1, 1)) + r.randrange(366 * 86400 * 1000) * 1000
            add({'k': 'wall', 'tz': tz, 'us': us}, 'random-wall-extra-zone')
    # --- d + n, n + d, (d + n) - d
    n_add = 300 if quick else 6000
    for tz in ZONES[:4] if quick else ZONES:
        for i in range(n_add):
            args = [r.randint(100, 9000), r.randint(1, 12), r.randint(1, 28), r.randint(0, 23), r.randint(0, 59), r.randint(0, 59), r.randint(0, 999)]
            c = r.random()
            if c < 0.3:
                n = r.randint(-10**12, 10**12)
            elif c < 0.5:
                n = r.choice([-1, 1]) * (10**12 - r.randint(0, 5))
            elif c < 0.7:
                n = r.randint(-100000, 100000)
            elif c < 0.8:
                n = r.choice([0, 1, -1, 999, 1000, -1000, 86400000, -86400000, 2**31, -2**31, 2**32 + 1])
            else:
                n = r.randint(-10**9, 10**9) * r.choice([1, 1000])
            add({'k': 'add', 'tz': tz, 'args': args, 'n': n, 'nfloat': i % 2 == 0}, 'add-sub')
    # --- host-supplied AWARE datetimes (another zone than the process zone): the getters read the normalised instant
    n_aw = 120 if quick else 2500
    for tz in ZONES:
        for i in range(n_aw):
            us = dt_to_us(datetime.datetime(r.randint(1900, 2100), r.randint(1, 12), r.randint(1, 28), r.choice([0, 0, 1, 12, 22, 23, 23]),
                                            r.randint(0, 59), r.randint(0, 59))) + r.randrange(1000) * 1000
            add({'k': 'aware', 'tz': tz, 'us': us, 'off': r.choice([-720, -600, -480, -300, -210, 0, 60, 330, 345, 540, 570, 765, 840])}, 'aware-host')
    # --- parsing: valid texts in many spellings, field-level invalid texts, malformed stream
    texts = parse_texts(r, 700 if quick else 12000)
    for i, (text, tag) in enumerate(texts):
        add({'k': 'parse', 'tz': ZONES[i % len(ZONES)], 'text': text}, tag)
    # --- millisecond getter on sub-millisecond values: the rounding formula of the model
    if quick:
        uss = sorted(set([k * 1000 + j for k in range(1000) for j in (0, 1, 499, 500, 501, 999)] + [r.randrange(10**6) for _ in range(4000)]))
    else:
        uss = list(range(10**6))
    for i in range(0, len(uss), 5000):
        add({'k': 'msget', 'tz': 'UTC', 'us': uss[i:i + 5000]}, 'ms-getter')
    return tasks, n_transitions


def parse_texts(r, n):
    out = []
    fixed_bad = ['2024-02-30', '2023-02-29', '2024-13-01', '2024-00-10', '2024-01-00', '2024-01-32', '0000-01-01', '2024-04-31',
                 '2024-01-01T24:00:00Z', '2024-01-01T23:60:00Z', '2024-01-01T23:59:60Z', '2024-01-01T10:00:00', '2024-01-01T10:00',
                 '2024-01-01 10:00:00Z', '2024-01-01t10:00:00Z', '2024-01-01T10:00:00z', '2024-01-01T10:00:00+0100', '2024-01-01T10:00:00+01',
                 '2024-01-01T10:00:00.Z', '2024-01-01T10:00:00.1234567Z', '2024-01-01T10:00:00,5Z', '2024-1-1', '24-01-01', '20240101',
                 '2024-01-01T10:00:00+24:00', '2024-01-01T10:00:00-24:00', '2024-01-01T10:00:00+99:99', '2024-02-30T10:00:00Z',
                 '2023-02-29T00:00:00+00:00', '', ' ', 'junk', 'null', '2024-01-01Z', ' 2024-01-01', '2024-01-01 ', '2024-01-01\n\n',
                 '\n2024-01-01', '2024-01-01T10:00:00Z\n', '2024-01-01T10:00:00+00:00\n', '2024-01-01T10:00:00ZZ', 'T10:00:00Z', '2024-01-01T',
                 '2024-01-01T10:00:00+00:00:00', '2024-01-01T10:00:00.5', '-2024-01-01', '+2024-01-01', '2024-01-01T10:00:00Z+00:00',
                 '٢٠٢٤-01-01T10:00:00Z', '2024-01-01T10:00:00.١Z', '2024-01-01T１０:00:00Z',
                 '0001-01-01T00:00:00+23:59', '9999-12-31T23:59:59-23:59', '0001-01-01T00:00:00Z', '9999-12-31T23:59:59.999999Z']
    fixed_ok = ['2024-02-29', '2024-01-01', '0001-01-01', '9999-12-31', '2024-01-01\n', '٢٠٢٤-٠١-٠١',
                '２０２４-12-31', '2024-01-01T10:00:00Z', '2024-01-01T10:00:00.1Z', '2024-01-01T10:00:00.12Z',
                '2024-01-01T10:00:00.123Z', '2024-01-01T10:00:00.1234Z', '2024-01-01T10:00:00.12345Z', '2024-01-01T10:00:00.123456Z',
                '2024-01-01T10:00:00.999999Z', '2024-01-01T10:00:00+00:00', '2024-01-01T10:00:00-00:00', '2024-01-01T10:00:00+23:59',
                '2024-01-01T10:00:00-23:59', '2024-01-01T10:00:00+05:45', '2024-01-01T10:00:00+00:60', '2024-01-01T10:00:00+00:99',
                '2024-03-10T02:30:00-05:00', '2024-11-03T01:30:00-04:00', '2024-11-03T01:30:00-05:00', '1985-12-31T23:59:59.999+05:30',
                '0100-01-01T00:00:00Z', '9000-12-31T23:59:59Z', '2024-02-29T23:59:59.000001+12:45']
    for t in fixed_bad:
        out.append((t, 'parse-fixed-malformed'))
    for t in fixed_ok:
        out.append((t, 'parse-fixed-valid'))

    def rand_valid():
        y = r.choice([r.randint(1, 9999), r.randint(1850, 2100)])
        mo = r.randint(1, 12)
        d = r.randint(1, 28) if r.random() < 0.8 else r.randint(1, 31)
        if r.random() < 0.2:
            return f'{y:04d}-{mo:02d}-{d:02d}'
        t = f'{y:04d}-{mo:02d}-{d:02d}T{r.randint(0, 23):02d}:{r.randint(0, 59):02d}:{r.randint(0, 59):02d}'
        if r.random() < 0.5:
            nd = r.randint(1, 6)
            t += '.' + ''.join(r.choice(ASCII_DIGITS) for _ in range(nd))
        c = r.random()
        if c < 0.3:
            t += 'Z'
        else:
            t += r.choice('+-') + f'{r.randint(0, 14):02d}:{r.choice([0, 0, 30, 45, r.randint(0, 59)]):02d}'
        return t
    alphabet = list('0123456789-:.TZ+ tz') + ['\n', '١', '５', 'x', '/']
    for _ in range(n):
        c = r.random()
        t = rand_valid()
        if c < 0.35:
            out.append((t, 'parse-random-valid'))
        elif c < 0.6:
            # field-level damage: one two-digit field replaced by an out-of-range or boundary value
            pos = [p for p in (5, 8, 11, 14, 17) if p + 2 <= len(t)]
            p = r.choice(pos)
            v = r.choice(['00', '13', '24', '31', '32', '60', '61', '99', '29', '30'])
            out.append((t[:p] + v + t[p + 2:], 'parse-field-damage'))
        elif c < 0.85:
            # character-level damage: delete / insert / replace / swap
            m = r.random()
            i = r.randrange(len(t) + 1)
            if m < 0.3 and t:
                t2 = t[:min(i, len(t) - 1)] + t[min(i, len(t) - 1) + 1:]
            elif m < 0.6:
                t2 = t[:i] + r.choice(alphabet) + t[i:]
            elif m < 0.9 and t:
                j = min(i, len(t) - 1)
                t2 = t[:j] + r.choice(alphabet) + t[j + 1:]
            else:
                j = min(i, max(len(t) - 2, 0))
                t2 = t[:j] + t[j + 1:j + 2] + t[j:j + 1] + t[j + 2:]
            out.append((t2, 'parse-char-damage'))
        else:
            out.append((''.join(r.choice(alphabet) for _ in range(r.randint(0, 30))), 'parse-soup'))
    return out


# ------------------------------------------------------------------ Coq encodings
def cdres_Z(us):
    return 'DExc' if us is None else f'(DOk {cZ(us)})'


def ctable(pairs):
    return clist([f'({cZ(a)}, {cZ(b)})' for a, b in pairs])


def cfields(f):
    return '(mkf ' + ' '.join(cZ(x) for x in f) + ')'


# ------------------------------------------------------------------ the check
def run(tier):
    chk = core.Check(PID, tier)
    chk.assumptions = ['CPython datetime/timedelta/astimezone/fromisoformat semantics as modelled in Model/Calendar.v',
                       'the tz database of the sandbox; zones ' + ', '.join(ZONES),
                       'reading of "valid ISO text": the strict grammar YYYY-MM-DD | YYYY-MM-DDTHH:MM:SS[.f{1,6}](Z|+-HH:MM) up to three '
                       'leniencies of the code that are reported as observations, not violations (see notes/C16.md)']
    proof_ok = chk.prove('Props/C16.v', extra_targets=['Model/CalendarRx.vo'])
    model_ok = proof_ok or chk.model_ready(['Model/Calendar.vo', 'Model/CalendarRx.vo'])

    r = core.rng('c16')
    tasks, n_transitions = gen_cases(tier, r)
    # off_utc table entries for the parse tasks: the reference says which UTC instant the text names
    for t, tag in tasks:
        if t['k'] == 'parse':
            exp = ref_parse(t['text'], t['tz'])
            t['u'] = exp[2] if exp[0] == 'dt' else exp[1] if exp[0] == 'edge' else None
    impl = core.run_impl('c16_dt', [t for t, _ in tasks], shards=core.NPROC)

    dist = {}
    obs = {'nonexistent_wall_times': 0, 'non_whole_minute_offsets': 0, 'roundtrips_checked': 0, 'lenient_accepts': {},
           'zoneinfo_vs_libc_disagreements': 0}
    nontrivial = set()
    corr_terms = []      # (term, description)
    per_zone_rt = {z: 0 for z in ZONES + EXTRA_ZONES}

    def fail(cls, task, **kw):
        chk.oracle_fail.append({'class': cls, 'input': task, 'source': str(task.get('args') or task.get('text') or task.get('us')), **kw})

    def battery_oracle(task, res, d_expected):
        """checks shared by 'new' and 'wall' once the datetime value d is known"""
        tz = task['tz']
        d_us = res['d'].get('dt') if isinstance(res.get('d'), dict) else None
        if d_us is None or d_us != d_expected:
            fail('wrong-instant', task, expected=fields_of_us(d_expected), got=res.get('d') if d_us is None else fields_of_us(d_us))
            return
        f = fields_of_us(d_us)
        # getters = the parts of the normalised instant (millisecond: whole-ms values only; sub-ms values go to the model)
        exp_get = f[:6] + [f[6] // 1000]
        if d_us % 1000 == 0 and res['get'] != exp_get:
            fail('getter-mismatch', task, expected=exp_get, got=res['get'])
        if d_us % 1000 != 0 and res['get'][:6] != exp_get[:6]:
            fail('getter-mismatch', task, expected=exp_get[:6], got=res['get'][:6])
        # date-only text and its parse
        exp_isod = f'{f[0]:04d}-{f[1]:02d}-{f[2]:02d}'
        midnight = d_us - d_us % (86400 * 10**6)
        if res['isod'] != exp_isod or res['pd'] != {'dt': midnight}:
            fail('iso-date-roundtrip', task, expected=[exp_isod, fields_of_us(midnight)], got=[res['isod'], res['pd']])
        zone = res.get('zone') or {}
        if 'tzerr' in zone or not zone:
            return
        # the text: fields of the (normalised) local time, .mmm by truncation, +-HH:MM of the offset in force
        exists = zone['l'] == d_us
        whole_minute = zone['o2_us'] % (60 * 10**6) == 0
        exp_text = ref_iso_text(zone['l'], zone['o2_us'])
        if not isinstance(res['iso'], str):
            fail('format-failed', task, expected=exp_text, got=res['iso'])
            return
        if res['iso'] != res['str']:
            fail('iso-text-differs-from-string-conversion', task, got=[res['iso'], res['str']])
        text_ok = res['iso'] == exp_text
        if whole_minute and not text_ok:
            # (offsets with seconds - local mean time - are outside the property; the model still covers them)
            fail('iso-text-wrong', task, expected=exp_text, got=res['iso'])
        if not exists:
            obs['nonexistent_wall_times'] += 1
        if not whole_minute:
            obs['non_whole_minute_offsets'] += 1
        if exists and whole_minute:
            obs['roundtrips_checked'] += 1
            per_zone_rt[tz] += 1
            want = d_us - d_us % 1000
            if res['p'] != {'dt': want}:
                fail('iso-roundtrip', task, text=res['iso'], expected=fields_of_us(want),
                     got=fields_of_us(res['p']['dt']) if isinstance(res['p'], dict) and 'dt' in res['p'] else res['p'])
            elif d_us % 1000 == 0 and res['diff'] != 0:
                fail('iso-roundtrip-diff', task, text=res['iso'], expected=0, got=res['diff'])
        # correspondence: iso_format under the dumped offsets, both variants
        if model_ok and isinstance(res['iso'], str):
            tl = ctable([(d_us, zone['o1_us'] // 10**6)]) if zone['o1_us'] % 10**6 == 0 else None
            tu = ctable([(zone['u'], zone['o2_us'] // 10**6)]) if zone['o2_us'] % 10**6 == 0 else None
            if tl and tu:
                want_p = 'None' if res['p'] is None else f'(Some {cZ(res["p"]["dt"])})'
                corr_terms.append((f'dres_eqb str_eqb (iso_format (tbl_lookup {tl}) (tbl_lookup {tu}) {cZ(d_us)}) (DOk {cstr(res["iso"])})'
                                   f' && dres_eqb str_eqb (iso_format_rx (tbl_lookup {tl}) (tbl_lookup {tu}) {cZ(d_us)}) (DOk {cstr(res["iso"])})'
                                   f' && dtf_eqb (fields {cZ(d_us)}) {cfields(f)}'
                                   f' && (get_millisecond {cZ(d_us)} =? {cZ(res["get"][6])})%Z'
                                   f' && str_eqb (iso_format_date {cZ(d_us)}) {cstr(res["isod"])}',
                                   {'kind': 'iso_format/fields', 'task': task, 'impl': res}, 'fmt'))
                # parse-back of the text in the same zone (off_utc needed at the instant the text names)
                sh = ref_parse(res['iso'], tz)
                # (offsets change at whole seconds, so the truncated instant has the offset of the instant itself)
                if sh[0] == 'dt' and sh[2] is not None and sh[2] == zone['u'] - zone['u'] % 1000:
                    tu2 = ctable([(sh[2], zone['o2_us'] // 10**6)])
                    corr_terms.append((f'option_eqb Z.eqb (iso_parse (tbl_lookup {tu2}) {cstr(res["iso"])}) {want_p}',
                                       {'kind': 'iso_parse(iso_format)', 'task': task, 'impl': res}, 'fmtparse'))

    for (task, tag), res in zip(tasks, impl):
        dist[tag] = dist.get(tag, 0) + 1
        k = task['k']
        if 'exc' in res:
            fail('worker-exception', task, got=res)
            continue
        if k == 'new':
            exp = ref_new(task['args'])
            if 'weird' in res:
                fail('unexpected-result-shape', task, got=res)
                continue
            if exp is None or res.get('null'):
                if (exp is None) != bool(res.get('null')):
                    fail('null-mismatch', task, expected=None if exp is None else fields_of_us(exp), got=res)
                elif model_ok and all(isinstance(a, int) for a in task['args']):
                    corr_terms.append((f'dres_eqb Z.eqb (datetime_new {" ".join(cZ(a) for a in task["args"])}) DExc',
                                       {'kind': 'datetime_new', 'task': task, 'impl': 'null'}, 'new'))
                continue
            a = task['args']
            if not (1 <= a[1] <= 12 and 1 <= a[2] <= 28 and 0 <= a[3] < 24 and 0 <= a[4] < 60 and 0 <= a[5] < 60 and 0 <= a[6] < 1000):
                nontrivial.add(tuple(a))
            if model_ok:
                got_us = res['d'].get('dt') if isinstance(res.get('d'), dict) else None
                corr_terms.append((f'dres_eqb Z.eqb (datetime_new {" ".join(cZ(x) for x in a)}) {cdres_Z(got_us)}',
                                   {'kind': 'datetime_new', 'task': task, 'impl': res.get('d')}, 'new'))
            battery_oracle(task, res, exp)
        elif k == 'wall':
            if res.get('null') or 'weird' in res:
                fail('unexpected-result-shape', task, got=res)
                continue
            battery_oracle(task, res, task['us'])
        elif k == 'add':
            d_exp = ref_new(task['args'])
            n = task['n']
            e_exp = d_exp + n * 1000
            if not MIN_US <= e_exp <= MAX_US:
                e_exp = None
            if res.get('null'):
                fail('null-mismatch', task, got=res)
                continue
            rr = res['r']
            want = [{'dt': d_exp}, None if e_exp is None else {'dt': e_exp}, None if e_exp is None else n,
                    None if e_exp is None else {'dt': e_exp}, None if e_exp is None else -n]
            if rr != want:
                fail('add-sub', task, expected=want, got=rr)
            if model_ok:
                t = f'dres_eqb Z.eqb (dt_add_ms {cZ(d_exp)} {cZ(n)}) {cdres_Z(rr[1]["dt"] if isinstance(rr[1], dict) else None)}'
                if isinstance(rr[1], dict) and isinstance(rr[2], int):
                    t += f' && option_eqb Z.eqb (dt_sub_float {cZ(rr[1]["dt"])} {cZ(d_exp)}) (Some {cZ(rr[2])})'
                    t += f' && option_eqb Z.eqb (dt_sub_float {cZ(d_exp)} {cZ(rr[1]["dt"])}) (Some {cZ(rr[4])})'
                    t += f' && (dt_sub_ms {cZ(rr[1]["dt"])} {cZ(d_exp)} =? {cZ(rr[2])})%Z'
                corr_terms.append((t, {'kind': 'add/sub', 'task': task, 'impl': rr}, 'add'))
        elif k == 'aware':
            rr = res.get('r')
            if not (isinstance(rr, list) and len(rr) == 3 and rr[0] == res.get('local') and rr[1] == 0 and rr[2] == 0):
                fail('getter-mismatch', task, expected={'getters': res.get('local'), 'rebuilt_minus_d': 0}, got=rr)
        elif k == 'parse':
            text = task['text']
            exp = ref_parse(text, task['tz'])
            sc, di = res['script'], res['direct']
            if isinstance(di, dict) and 'exc' in di:
                fail('parse-raises', task, got=di)
                continue
            if isinstance(sc, dict) and 'exc' in sc:
                fail('parse-raises-at-script-level', task, got=sc)
                continue
            if sc != di:
                fail('parse-script-vs-direct', task, got=[sc, di])
                continue
            if exp[0] == 'null':
                if di is not None:
                    fail('invalid-text-accepted', task, expected=None, got=di)
            elif exp[0] == 'dt':
                for ln in exp[3]:
                    obs['lenient_accepts'][ln] = obs['lenient_accepts'].get(ln, 0) + 1
                offu = res.get('offu_us')
                want = exp[1]
                if exp[2] is not None and isinstance(offu, int):
                    lu = exp[2] + offu
                    libc_want = lu - lu % 1000
                    if libc_want != want:
                        obs['zoneinfo_vs_libc_disagreements'] += 1
                        want = libc_want
                if di != {'dt': want}:
                    if exp[3]:
                        # a lenient spelling: the code may accept (documented) or reject it; anything else is wrong
                        if di is not None:
                            fail('lenient-text-wrong-value', task, expected=fields_of_us(want), got=di)
                    else:
                        fail('valid-text-wrong-value', task, expected=fields_of_us(want), got=di)
            # correspondence (both parser variants) whenever the needed offset is known
            if model_ok and exp[0] in ('null', 'dt'):
                offu = res.get('offu_us')
                if exp[0] == 'null' or exp[2] is None:
                    tu = '[]'
                elif isinstance(offu, int) and offu % 10**6 == 0:
                    tu = ctable([(exp[2], offu // 10**6)])
                else:
                    tu = None
                if tu is not None:
                    want_c = 'None' if di is None else f'(Some {cZ(di["dt"])})'
                    corr_terms.append((f'option_eqb Z.eqb (iso_parse (tbl_lookup {tu}) {cstr(text)}) {want_c}'
                                       f' && dres_eqb (option_eqb Z.eqb) (iso_parse_rx (tbl_lookup {tu}) {cstr(text)}) (DOk {want_c})',
                                       {'kind': 'iso_parse', 'task': task, 'impl': di}, 'parse'))
        elif k == 'msget':
            for us, got in zip(task['us'], res['ms']):
                if got != (us + 500) // 1000:
                    chk.corr_fail.append({'class': 'millisecond-getter-formula', 'us': us, 'impl': got, 'model': (us + 500) // 1000})
                    break

    # ---- correspondence inside Coq (sampled per kind)
    corr_n = 0
    if model_ok:
        budget = {'new': 2000, 'fmt': 1600, 'fmtparse': 1000, 'add': 600, 'parse': 10**9}
        if tier == 'thorough':
            budget = {k: v * 8 for k, v in budget.items()}
        by_kind = {}
        for i, (_, _, kind) in enumerate(corr_terms):
            by_kind.setdefault(kind, []).append(i)
        pick = []
        for kind, idxs in sorted(by_kind.items()):
            if len(idxs) > budget[kind]:
                idxs = sorted(r.sample(idxs, budget[kind]))
            pick += idxs
        terms = [corr_terms[i][0] for i in pick]
        bad, errors = core.coq_bools('c16', 'Model.Base Model.Calendar Model.CalendarRx', terms, shard=220,
                                     prelude='Local Open Scope Z_scope.\nLocal Open Scope bool_scope.')
        corr_n = len(pick)
        for kk, log in errors:
            chk.corr_fail.append({'class': 'case-file-did-not-evaluate', 'shard': kk, 'log': log[-800:]})
        for b in bad[:15]:
            _, desc, kind = corr_terms[pick[b]]
            chk.corr_fail.append({'class': 'model-differs', **desc, 'term': corr_terms[pick[b]][0][:1500]})
        if len(bad) > 15:
            chk.corr_fail.append({'class': 'model-differs', 'more': len(bad) - 15})

    prio = {'iso-roundtrip': 0, 'iso-roundtrip-diff': 0, 'wrong-instant': 0, 'null-mismatch': 0, 'getter-mismatch': 1, 'add-sub': 1}
    chk.oracle_fail.sort(key=lambda c: prio.get(c['class'], 2))
    n_eval = len(tasks)
    samples = []
    for i in (0, 40, len(tasks) // 3, len(tasks) // 2, len(tasks) - 300):
        if 0 <= i < len(tasks) and tasks[i][0]['k'] != 'msget':
            samples.append({'task': tasks[i][0], 'impl': impl[i]})
    chk.coverage = {
        'evaluations': n_eval,
        'distinct_nontrivial': len(nontrivial),
        'rule': '+ round 7: d + n aimed into the skipped / repeated wall-clock interval of every sampled offset change; every case is a BareScript program run by execute_script in a subprocess under one of the 8 zones; non-trivial = '
                'distinct datetimeNew argument lists with at least one component outside its natural range and a non-null result; '
                'families: corpus, exhaustive months -30..40 x boundary days x 4 year kinds, exhaustive carry boundaries of each time '
                'component, random over the whole quantifier per zone, wall times around every offset change of each zone found by '
                'scanning 1800-2100 (+2499, 5000, 8999), random wall times incl. sub-millisecond values, +/- with |n| <= 1e12, ISO '
                'texts (valid spellings, field damage, character damage, soup), millisecond getter on sub-ms values',
        'exhaustive': True,
        'exhaustive_part': 'months -30..40 x 14 boundary days x 4 (6 thorough) years; carry boundaries of h/min/s/ms; '
                           + ('all 10^6 microsecond values of the millisecond getter' if tier == 'thorough' else '10^4 microsecond values of the millisecond getter'),
        'distribution': dist,
        'zones': ZONES,
        'offset_changes_found_per_zone': n_transitions,
        'roundtrips_checked_per_zone': per_zone_rt,
        'observations': obs,
        'correspondence_cases': corr_n,
        'samples': samples,
    }
    return chk.finish(TRUSTED)


def replay(data):
    """re-run the failing inputs of a replay file against the implementation and print what it returns now"""
    import json
    cases = [c['input'] for c in data.get('failing_inputs', []) if isinstance(c.get('input'), dict)]
    if not cases:
        print(json.dumps(data, indent=1)[:4000])
        return 0
    res = core.run_impl('c16_dt', cases, shards=1)
    for c, o, x in zip(cases, data['failing_inputs'], res):
        print(json.dumps({'input': c, 'class': o.get('class'), 'expected': o.get('expected'), 'now': x}, ensure_ascii=True)[:1500])
    return 1
