"""interp.py - shared by the interpreter checks (C01, C03, C04, C05, C08, C09, C18): value specs, their Coq encoding
(initial world with a heap), result trees, and the boolean/N-valued comparison terms of Model/Run.v."""
from .core import cstr, cZ, cnat, cbool, clist, copt, cflt
from . import scriptgen

IMPORTS = 'Model.Base Model.Num Model.Arith Model.ExprParser Model.Script Model.Interp Model.LibCore Model.Run'


# ------------------------------------------------------------------ value specs
def vint(n):
    n = int(n)
    return ['int', str(n) if abs(n) < 10 ** 300 else hex(n)]        # (CPython refuses to print very long ints in decimal)


def vflt(x):
    return ['flt', float(x).hex()]


class Pool:
    """allocates ids for containers so that aliases can be expressed"""

    def __init__(self):
        self.n = 0

    def arr(self, items):
        self.n += 1
        return ['arr', self.n, items]

    def obj(self, kvs):
        self.n += 1
        return ['obj', self.n, kvs]


def sample_values(r, pool, depth=2):
    """one value of each of the nine types and a few more, as specs"""
    base = [['null'], ['bool', True], ['bool', False], vflt(0.0), vflt(1.0), vflt(-2.0), vflt(2.5), vint(3), vint(0), vflt(-0.0),
            ['str', ''], ['str', 'ab'], ['str', '7'], ['date', str(63_000_000_000_000_000 + r.randrange(10**9) * 1000)], ['regex']]
    out = list(base)
    if depth > 0:
        out.append(pool.arr([]))
        out.append(pool.arr([r.choice(base) for _ in range(r.randint(1, 3))]))
        out.append(pool.obj([]))
        out.append(pool.obj([[k, r.choice(base)] for k in r.sample(['a', 'b', 'k'], r.randint(1, 2))]))
        if depth > 1:
            out.append(pool.arr([pool.arr([vflt(1.0)]), pool.obj([['z', ['null']]])]))
    return out


# ------------------------------------------------------------------ Coq encodings
def num_coq(spec):
    if spec[0] == 'int':
        return f'(NInt {cZ(int(spec[1], 0))})'
    return f'(NFlt {cflt(float.fromhex(spec[1]))})'


class WorldEnc:
    """encodes value specs into an initial [world] term (heap locations follow allocation order)"""

    def __init__(self):
        self.arrs = []
        self.objs = []
        self.loc = {}

    def val(self, spec):
        k = spec[0]
        if k == 'null':
            return 'VNull'
        if k == 'bool':
            return f'(VBool {cbool(spec[1])})'
        if k in ('int', 'flt'):
            return f'(VNum {num_coq(spec)})'
        if k == 'str':
            return f'(VStr {cstr(spec[1])})'
        if k == 'date':
            return f'(VDate {cZ(int(spec[1]))})'
        if k == 'regex':
            return '(VRegex 0%N)'
        if k == 'hostfn':
            if spec[1] not in ('first', 'count'):
                raise Unencodable(spec[1])
            return '(VFun (FLib (U "__host%s")))' % spec[1].capitalize()
        if k == 'arr':
            ix = len(self.arrs)
            self.arrs.append(None)
            self.loc[spec[1]] = f'(VArr {cnat(ix)})'
            self.arrs[ix] = clist([self.val(x) for x in spec[2]])
            return self.loc[spec[1]]
        if k == 'obj':
            ix = len(self.objs)
            self.objs.append(None)
            self.loc[spec[1]] = f'(VObj {cnat(ix)})'
            self.objs[ix] = clist([f'({cstr(kk)}, {self.val(vv)})' for kk, vv in spec[2]])
            return self.loc[spec[1]]
        if k == 'ref':
            return self.loc[spec[1]]
        if k in ('awaredate', 'dateonly'):
            raise Unencodable(k)        # host date values the model's VDate (a naive datetime) does not represent
        raise ValueError(k)

    def env(self, d):
        return clist([f'({cstr(k)}, {self.val(v)})' for k, v in d.items()])

    def world(self, globals_spec):
        g = self.env(globals_spec)
        return ('{| w_globals := ' + g + '; w_arrs := ' + clist(self.arrs) + '; w_objs := ' + clist(self.objs) +
                '; w_funs := []; w_log := []; w_count := 0%Z; w_fetched := [] |}')


def tree_coq(t):
    k = t[0]
    if k == 'null':
        return 'TNull'
    if k == 'bool':
        return f'(TBool {cbool(t[1])})'
    if k == 'int':
        return f'(TNum (NInt {cZ(int(t[1], 0))}))'
    if k == 'flt':
        return f'(TNum (NFlt {cflt(float.fromhex(t[1]))}))'
    if k == 'str':
        return f'(TStr {cstr(t[1])})'
    if k == 'date':
        return f'(TDate {cZ(int(t[1]))})'
    if k == 'arr':
        return f'(TArr {clist([tree_coq(x) for x in t[1]])})'
    if k == 'obj':
        return '(TObj ' + clist([f'({cstr(kk)}, {tree_coq(vv)})' for kk, vv in t[1]]) + ')'
    if k == 'fun':
        return 'TFun'
    if k == 'regex':
        return 'TRegex'
    raise Unencodable(k)


class Unencodable(Exception):
    pass


def expected_coq(res):
    if 'res' in res:
        return f'(XVal {tree_coq(res["res"])})'
    if 'rt' in res:
        return f'(XRt {cstr(res["rt"])})'
    if 'parse' in res:
        msg, line, col, lineno, _ = res['parse']
        return f'(XParse {cstr(msg)} {cstr(line)} {cnat(col)} {copt(cnat(lineno) if lineno is not None else None)})'
    return f'(XHost {cstr(res.get("host", "?"))})'


def run_term(case, res, model_stmts, fuel=20000, files=None):
    """N-valued term: does the model agree with the implementation's result [res] on this case?
    model_stmts: canonical statement list (the implementation's own parse of the text, or the hand-built model)."""
    enc = WorldEnc()
    world = enc.world(case.get('globals', {}))
    mx = case.get('max', 10**9)
    cfg = f'(mkcfg {cZ(mx)} {cbool(bool(case.get("debug")))} {cbool(case.get("log", True))})'
    if files:
        ftab = clist([f'({cstr(u)}, {cstr(t)})' for u, t in files.items() if isinstance(t, str)])
        cfg = f'(mkcfg_files {cZ(mx)} {cbool(bool(case.get("debug")))} {cbool(case.get("log", True))} {ftab})'
    xg = clist([f'({cstr(k)}, {tree_coq(v)})' for k, v in res['globals']])
    return (f'check_run {cfg} (Z.to_nat {cZ(fuel)}) {scriptgen.script_coq(model_stmts)} {world} {expected_coq(res)} '
            f'{clist([cstr(s) for s in res["log"]])} {xg} {cZ(res["count"])}')


def eval_term(case, res, expr_canon, fuel=5000):
    enc = WorldEnc()
    world = enc.world(case.get('globals', {}))
    loc = copt(enc.env(case['locals']) if case.get('locals') is not None else None)
    # the world must be built before locals refer to it: encode globals first, then locals share the heap
    enc2 = WorldEnc()
    g = enc2.env(case.get('globals', {}))
    loc = copt(enc2.env(case['locals']) if case.get('locals') is not None else None)
    world = ('{| w_globals := ' + g + '; w_arrs := ' + clist(enc2.arrs) + '; w_objs := ' + clist(enc2.objs) +
             '; w_funs := []; w_log := []; w_count := 0%Z; w_fetched := [] |}')
    cfg = f'(mkcfg {cZ(case.get("max", 10**9))} {cbool(bool(case.get("debug")))} {cbool(case.get("log", True))})'
    return (f'check_eval {cfg} (Z.to_nat {cZ(fuel)}) {scriptgen.expr_coq(expr_canon)} {loc} {cbool(case.get("builtins", True))} '
            f'{world} {expected_coq(res)} {clist([cstr(s) for s in res["log"]])}')


# ------------------------------------------------------------------ specs -> python values for the reference interpreter
import datetime as _dt   # noqa: E402

_EPOCH = _dt.datetime(1, 1, 1)


def py_of_spec(spec, pool=None):
    """a value spec as the python value the reference interpreter works on (aliases through ids)"""
    pool = {} if pool is None else pool
    k = spec[0]
    if k == 'null':
        return None
    if k == 'bool':
        return bool(spec[1])
    if k == 'int':
        return int(spec[1], 0)
    if k == 'flt':
        return float.fromhex(spec[1])
    if k == 'str':
        return spec[1]
    if k == 'date':
        return _EPOCH + _dt.timedelta(microseconds=int(spec[1]))
    if k == 'arr':
        a = []
        pool[spec[1]] = a
        a.extend(py_of_spec(x, pool) for x in spec[2])
        return a
    if k == 'obj':
        o = {}
        pool[spec[1]] = o
        for kk, vv in spec[2]:
            o[kk] = py_of_spec(vv, pool)
        return o
    if k == 'ref':
        return pool[spec[1]]
    if k == 'regex':
        return _Regex()
    raise ValueError(k)


class _Regex:
    """stands for a regex value in the reference (opaque)"""


def plain_of_tree(t):
    """worker result tree -> python value comparable with the reference's values (numbers as float, dates as datetime)"""
    k = t[0]
    if k == 'null':
        return None
    if k == 'bool':
        return bool(t[1])
    if k == 'int':
        v = int(t[1], 0)
        try:
            return float(v)
        except OverflowError:
            return v
    if k == 'flt':
        return float.fromhex(t[1])
    if k == 'str':
        return t[1]
    if k == 'date':
        return _EPOCH + _dt.timedelta(microseconds=int(t[1]))
    if k == 'arr':
        return [plain_of_tree(x) for x in t[1]]
    if k == 'obj':
        return {kk: plain_of_tree(vv) for kk, vv in t[1]}
    return ('opaque', k)


def same_value(a, b):
    """reference value vs implementation value (int/float spelling ignored; functions/regexes opaque)"""
    import math
    if isinstance(a, bool) or isinstance(b, bool):
        return isinstance(a, bool) and isinstance(b, bool) and a == b
    if isinstance(a, (int, float)) and isinstance(b, (int, float)):
        if isinstance(a, float) and math.isnan(a) or isinstance(b, float) and math.isnan(b):
            return isinstance(a, float) and isinstance(b, float) and math.isnan(a) and math.isnan(b)
        try:
            return float(a) == float(b) and (a != 0 or math.copysign(1, float(a)) == math.copysign(1, float(b)))
        except OverflowError:
            return a == b
    if isinstance(a, list) and isinstance(b, list):
        return len(a) == len(b) and all(same_value(x, y) for x, y in zip(a, b))
    if isinstance(a, dict) and isinstance(b, dict):
        return a.keys() == b.keys() and all(same_value(a[k], b[k]) for k in a)
    if isinstance(b, tuple) and b and b[0] == 'opaque':
        from . import refinterp
        return (b[1] == 'fun' and refinterp.type_name(a) == 'function') or (b[1] == 'regex' and isinstance(a, _Regex))
    return type(a) is type(b) and a == b
