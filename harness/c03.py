"""C03 - expression evaluation follows the typed operator semantics.

proof         : coq/Props/C03.v (operator/type table, arithmetic yields number-or-null, relational = sign tests, short circuit,
                if(), strict left-to-right order, argument order, alias table)
direct oracle : (1) the full type matrix: 14 operators x all ordered pairs of a 30-value pool covering the nine types (0, -0, huge,
                fractional, '', empty containers, datetimes ...) through evaluate_expression, against an independent reference;
                (2) random expression trees to depth 6 whose leaves are effect-logging calls, run through execute_script: value AND
                log (order, multiplicity, laziness) against the reference; (3) every alias of EXPRESSION_FUNCTION_MAP against its
                target on sampled argument lists, and shadowing by locals/globals.
correspondence: the Coq evaluator against the implementation on (1) and (2).
"""
import itertools

from . import core, interp, refinterp

PID = 'C03'
OPS = ['**', '*', '/', '%', '+', '-', '<=', '<', '>=', '>', '==', '!=', '&&', '||']
TRUSTED = [
    'Coq 8.16.1 kernel + coqc; vm_compute to run the model and for the generated alias-table obligation (no native_compute)',
    'Print Assumptions of every C03 theorem: Closed under the global context',
    'Model/Interp.v eval/binop/unop + Model/Arith.v (Python arithmetic on SpecFloat/Z): hand transliterations validated by the correspondence; '
    'payloads the model declines (libm pow, shortest repr of long fractions, JSON/ISO text of containers/datetimes) are oracle-only',
    'tools/translate_library.py: EXPRESSION_FUNCTION_MAP / SCRIPT_FUNCTIONS regenerated; pins how EXPRESSION_FUNCTIONS is built',
    'harness/refinterp.py: independent reference semantics (direct oracle)',
]
NONDET = {'now', 'today', 'rand', 'datetimeNow', 'datetimeToday', 'mathRandom'}


def pool(r):
    p = interp.Pool()
    vals = [
        ('null', ['null']), ('true', ['bool', True]), ('false', ['bool', False]),
        ('zero', interp.vflt(0.0)), ('negzero', interp.vflt(-0.0)), ('one', interp.vflt(1.0)), ('neg', interp.vflt(-8.0)), ('half', interp.vflt(0.5)),
        ('big', interp.vflt(1e308)), ('int3', interp.vint(3)), ('int0', interp.vint(0)), ('hugeint', interp.vint(10 ** 40)),
        ('twofive', interp.vflt(2.5)), ('empty', ['str', '']), ('sab', ['str', 'ab']), ('s7', ['str', '7']), ('su', ['str', 'é\U0001f600']),
        ('d1', ['date', str(63_842_000_000_000_000)]), ('d2', ['date', str(63_842_000_086_400_000)]), ('d3', ['date', str(63_842_000_000_001_000)]),
        ('aempty', p.arr([])), ('a12', p.arr([interp.vflt(1), interp.vflt(2)])), ('a13', p.arr([interp.vflt(1), interp.vflt(3)])),
        ('oempty', p.obj([])), ('oa', p.obj([['a', interp.vflt(1)]])), ('ob', p.obj([['a', interp.vflt(1)], ['b', ['null']]])),
        ('rx', ['regex']),
        # non-finite operands (datetime + nan is a ValueError inside timedelta, not an ArithmeticError) and objects that share their
        # first key with different values while the key SETS order the other way (value order: sorted items pairwise, then size)
        ('nan', ['flt', 'nan']), ('inf', ['flt', 'inf']), ('ninf', ['flt', '-inf']),
        ('oc', p.obj([['a', interp.vflt(2)]])), ('od', p.obj([['a', interp.vflt(1)], ['b', interp.vflt(0)]])),
        # the same key set inserted in the same NON-alphabetical order, values pointing opposite ways (the order sorts the keys first)
        ('oe', p.obj([['b', interp.vflt(1)], ['a', interp.vflt(2)]])), ('of', p.obj([['b', interp.vflt(2)], ['a', interp.vflt(1)]])),
        # a datetime with a sub-millisecond part (datetime - datetime is the WHOLE-millisecond difference)
        ('d4', ['date', str(63_842_000_000_000_400)]),
        # exactly half a millisecond above d1 (the difference rounds half AWAY from zero: 1, not 0)
        ('d5', ['date', str(63_842_000_000_000_500)]), ('d6', ['date', str(63_842_000_000_002_500)]),
        # strings are ordered by CODE POINT: a character of U+E000..U+FFFF sorts below an astral one (UTF-16 code units would say the opposite)
        ('sbmp', ['str', 'x\uff21']), ('sastral', ['str', 'x\U0001f600']),
    ]
    return vals


def canon_of_text(text_models, text):
    return text_models[text]


class TreeGen:
    """random expression trees whose leaves log: lg('tag', value) returns value after logging tag"""

    def __init__(self, r, names):
        self.r, self.names, self.n = r, names, 0

    def leaf(self):
        self.n += 1
        return f"lg('t{self.n}', {self.r.choice(self.names)})"

    def tree(self, d):
        r = self.r
        c = r.random()
        if d <= 0 or c < 0.22:
            return self.leaf()
        if c < 0.62:
            return f'({self.tree(d - 1)} {r.choice(OPS)} {self.tree(d - 1)})'
        if c < 0.72:
            return f'{r.choice(["!", "-"])}{self.leaf()}'
        if c < 0.84:
            n = r.choice([1, 2, 3, 3, 3])
            return 'if(' + ', '.join(self.tree(d - 1) for _ in range(n)) + ')'
        if c < 0.91:
            return f'lg2({self.tree(d - 1)}, {self.tree(d - 1)})'
        if c < 0.94:
            # a callee that is NOT defined: its arguments are still evaluated (and logged), left to right, before the lookup fails;
            # and a callee that one of its own arguments (re)binds: the call uses the binding in force AFTER the arguments ran
            return r.choice([f'nofn({self.leaf()}, {self.tree(d - 1)})',
                             f"lg3(systemGlobalSet('lg3', lg2), {self.leaf()})"])
        return f'({self.tree(d - 1)})'


PRELUDE = ("function lg(t, v):\n    systemLog(t)\n    return v\nendfunction\n"
           "function lg2(a, b):\n    systemLog('lg2')\n    return arrayNew(a, b)\nendfunction\n")


def ref_eval_script(model, gspec):
    g = {name: refinterp.LibFn(name) for name in ('systemLog', 'arrayNew', 'arrayLength', 'systemGlobalSet')}
    pool_ = {}
    for k, v in gspec.items():
        g[k] = interp.py_of_spec(v, pool_)
    ref = refinterp.Ref(g, 0, 'jump')
    out = {}
    try:
        out['res'] = ref.exec_jump(model, None)
    except refinterp.RtError as exc:
        out['rt'] = str(exc)
    out['log'] = list(ref.log)
    return out


def run(tier):
    chk = core.Check(PID, tier)
    chk.assumptions = ['NaN operands are outside the value order (C11) and are not generated',
                       'datetime values are naive local datetimes']
    proof_ok = chk.prove('Props/C03.v', extra_targets=['Model/Run.vo'])
    model_ok = proof_ok or chk.model_ready(['Model/Run.vo'])
    r = core.rng('c03')
    vals = pool(r)
    gspec = dict(vals)
    names = [n for n, _ in vals]

    # ---- (1) type matrix through evaluate_expression
    cases, meta = [], []
    for op in OPS:
        for (na, _), (nb, _) in itertools.product(vals, repeat=2):
            if op == '**' and nb == 'hugeint':
                continue        # int ** (10^40) does not terminate in CPython: outside every stated quantifier (DESIGN.md, observation F22)
            cases.append({'expr_text': f'{na} {op} {nb}', 'globals': {na: gspec[na], nb: gspec[nb]}, 'builtins': True})
            meta.append(('matrix', op, na, nb))
    for op in ('!', '-'):
        for na, _ in vals:
            cases.append({'expr_text': f'{op}{na}', 'globals': {na: gspec[na]}, 'builtins': True})
            meta.append(('unary', op, na, None))
    # ---- (1b) the keyword literals null / true / false are not variables: bindings of those names (host globals, locals) never change them
    kw_globals = {'true': interp.vflt(0.0), 'false': interp.vflt(1.0), 'null': interp.vflt(5.0), 'one': interp.vflt(1.0)}
    for text, want in (('true', True), ('false', False), ('null', None), ('if(true, 1, 2)', 1.0), ('if(false, 1, 2)', 2.0), ('false || 7', 7.0),
                       ('true && 8', 8.0), ('null == null', True), ('!true', False), ('one + true', None), ('null != one', True),
                       ('true == one', False), ('if(null, 1, 2)', 2.0)):
        for where in ('globals', 'locals'):
            cases.append({'expr_text': text, 'globals': kw_globals if where == 'globals' else {'one': interp.vflt(1.0)},
                          'locals': None if where == 'globals' else {k: v for k, v in kw_globals.items() if k != 'one'}, 'builtins': True})
            meta.append(('keyword', text, where, want))
    # ---- (2) effect trees through execute_script
    n_trees = 700 if tier == 'quick' else 8000
    for _ in range(n_trees):
        tg = TreeGen(r, [n for n in names if n != 'hugeint'])
        text = PRELUDE + 'return ' + tg.tree(r.choice([2, 3, 4, 5, 6])) + '\n'
        if len(text) > 900:
            continue
        cases.append({'text': text, 'globals': gspec, 'max': 5000, 'want_model': True})
        meta.append(('tree', None, None, None))
    impl = core.run_impl('run_script', cases)
    # canonical expressions of the matrix texts (the implementation's own parse)
    matrix_idx = [i for i, m in enumerate(meta) if m[0] not in ('tree', 'keyword')]
    parsed = core.run_impl('parse_expr', [cases[i]['expr_text'] for i in matrix_idx])
    canon = {i: p.get('ok') for i, p in zip(matrix_idx, parsed)}

    dist, nontrivial, skipped = {}, set(), 0
    pyvals = {}
    pool_ = {}
    for k, v in gspec.items():
        pyvals[k] = interp.py_of_spec(v, pool_)
    for i, (m, res) in enumerate(zip(meta, impl)):
        dist[m[0]] = dist.get(m[0], 0) + 1
        src = cases[i].get('expr_text') or cases[i]['text']
        if 'host' in res:
            chk.oracle_fail.append({'class': 'host-exception', 'source': src, 'got': res})
            continue
        if m[0] == 'keyword':
            got = interp.plain_of_tree(res['res']) if 'res' in res else ('no value', res.get('rt'))
            if not (type(got) is type(m[3]) and got == m[3]):
                chk.oracle_fail.append({'class': 'keyword-literal-shadowed-by-a-binding', 'source': src, 'bound_in': m[2], 'expected': m[3], 'got': res.get('res') or res.get('rt')})
            continue
        try:
            if m[0] == 'tree':
                if 'model' not in res:
                    continue
                exp = ref_eval_script(res['model'], gspec)
            else:
                ref = refinterp.Ref(dict(pyvals), 0)
                exp = {'res': ref.ev(canon[i], None), 'log': []} if canon[i] is not None else None
                if exp is None:
                    continue
        except (refinterp.Unsupported, RecursionError, OverflowError):
            skipped += 1
            continue
        ok = res['log'] == exp['log']
        if 'rt' in exp:
            ok = ok and res.get('rt') == exp['rt']
        else:
            ok = ok and 'res' in res and interp.same_value(exp['res'], interp.plain_of_tree(res['res']))
        if not ok:
            chk.oracle_fail.append({'class': 'value-differs-from-operator-semantics' if res['log'] == exp['log'] else 'evaluation-order-or-laziness-differs',
                                    'source': src, 'expected': {k: repr(v)[:300] for k, v in exp.items()},
                                    'got': {k: res.get(k) for k in ('res', 'rt', 'log')}})
        if m[0] == 'tree' or (m[2] != m[3]):
            nontrivial.add(src)

    # ---- (3) aliases
    alias_cases = core.run_impl('alias_probe', [{'seed': core.seed(), 'n': 6 if tier == 'quick' else 40}], shards=1)[0]
    n_alias = alias_cases['checked']
    for bad in alias_cases['failures']:
        chk.oracle_fail.append({'class': 'alias-differs-from-its-library-function', **bad})

    # ---- correspondence
    corr_n = declined = 0
    if model_ok:
        mi = [i for i in matrix_idx if canon[i] is not None and 'host' not in impl[i]]
        ti = [i for i, m in enumerate(meta) if m[0] == 'tree' and 'model' in impl[i]]
        bm, bt = (2500, 250) if tier == 'quick' else (len(mi), 3000)
        if len(mi) > bm:
            mi = sorted(r.sample(mi, bm))
        if len(ti) > bt:
            ti = sorted(r.sample(ti, bt))
        terms, used = [], []
        for i in mi:
            try:
                terms.append(interp.eval_term(cases[i], impl[i], canon[i], fuel=200))
                used.append(i)
            except interp.Unencodable:
                pass
        for i in ti:
            try:
                terms.append(interp.run_term(cases[i], impl[i], impl[i]['model'], fuel=3000))
                used.append(i)
            except interp.Unencodable:
                pass
        codes, errors = core.coq_codes('c03', interp.IMPORTS, terms, shard=120)
        corr_n = len(used)
        for k, log in errors:
            chk.corr_fail.append({'class': 'case-file-did-not-evaluate', 'shard': k, 'log': log[-800:]})
        declined = sum(1 for c in codes if c == 2)
        for j, c in enumerate(codes):
            if c in (0, 3) and len(chk.corr_fail) < 15:
                i = used[j]
                chk.corr_fail.append({'class': 'model-differs' if c == 0 else 'model-out-of-fuel',
                                      'source': cases[i].get('expr_text') or cases[i]['text'],
                                      'impl': {k: impl[i].get(k) for k in ('res', 'rt', 'log')}})

    chk.coverage = {
        'evaluations': len(cases) + n_alias,
        'distinct_nontrivial': len(nontrivial),
        'rule': 'type matrix: 14 binary operators x every ordered pair of a %d-value pool (all nine types incl. 0, -0, huge, fractional, empty string/containers, '
                'datetimes) + 2 unary operators x pool, through evaluate_expression; effect trees: random trees to depth 6 over the operators, if(), calls, '
                'groups with logging leaves, through execute_script; aliases: every EXPRESSION_FUNCTION_MAP entry on sampled argument lists; non-trivial = '
                'a tree, or a matrix entry with two different operands; distinct by source' % len(vals),
        'exhaustive': True, 'exhaustive_part': f'operator x type-pair matrix ({len(OPS)} x {len(vals)}^2)',
        'distribution': dist, 'reference_skipped': skipped, 'alias_checks': n_alias,
        'correspondence_cases': corr_n, 'model_declined': declined,
        'samples': [{'source': cases[i].get('expr_text') or cases[i]['text'], 'impl': {k: impl[i].get(k) for k in ('res', 'rt', 'log')}}
                    for i in (17, 5000, len(cases) - 1) if i < len(cases)],
    }
    return chk.finish(TRUSTED)
