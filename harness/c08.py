"""C08 - jump-level models execute by the documented statement semantics.

proof         : coq/Props/C08.v (label lookup = first label of the same list; the label cache never changes a run;
                unknown label -> runtime error; return / end of list; function binding; calls run the body as its own list)
direct oracle : an independent cache-free reference interpreter (harness/refinterp.py exec_jump) on EVERY statement list of
                length <= 4 (quick) / <= 5 (thorough) over a 13-statement alphabet (log, assign, two jumps, two conditional jumps,
                two labels with duplicates allowed, two returns, calls of two one-level functions), random models up to 40
                statements; result/exception, log, globals and statementCount must agree; the Python model object must be
                unchanged by the run (deep copy compared) and a second run on equal globals must give identical observables.
correspondence: the Coq interpreter model (Model/Interp.v, run by vm_compute) against the implementation on the same models.
"""
import itertools

from . import core, interp, refinterp
from .core import cstr  # noqa: F401

PID = 'C08'
TRUSTED = [
    'Coq 8.16.1 kernel + coqc; vm_compute only to run the model on cases and for one Example (no native_compute)',
    'Print Assumptions of every C08 theorem: Closed under the global context (no axioms)',
    'Model/Interp.v: hand transliteration of runtime.py (statement loop, label cache, calls); the library, the options, the URL '
    'resolver and the lint renderer are universally quantified in the theorems; validated against the implementation by the correspondence',
    'Model/LibCore.v + Model/Arith.v: the library functions / arithmetic used by the generated cases (correspondence only)',
    'harness/refinterp.py: independent reference semantics used as the direct oracle',
    'in-place mutation of the Python model object cannot be exhibited by a Gallina model: checked on the implementation only (deep copy)',
]


def E(text):
    """tiny expression builder over canonical trees"""
    return text


def num(x):
    return ['num', float(x).hex()]


LOG = lambda s: ['expr', None, ['call', 'systemLog', [['str', s]]]]   # noqa: E731
X_LT = lambda n: ['bin', '<', ['var', 'x'], num(n)]                    # noqa: E731

FF = ['function', 'ff', [], False, False,
      [LOG('f'), ['expr', 'x', ['bin', '+', ['var', 'x'], num(10)]], ['jump', 'L1', None], LOG('g'), ['label', 'L1'],
       ['return', ['bin', '-', ['var', 'x'], num(3)]]]]      # assigns a LOCAL x in a zero-argument function
GG = ['function', 'gg', ['p'], False, False,
      [['jump', 'L2', ['var', 'p']], ['return', ['str', 'gg']]]]

# a function whose body STARTS with a label and loops back to it (a taken jump to the first statement of a list)
HH = ['function', 'hh', ['q'], False, False,
      [['label', 'T'], ['expr', 'q', ['bin', '+', ['var', 'q'], num(1)]], ['jump', 'T', ['bin', '<', ['var', 'q'], num(3)]], ['return', ['var', 'q']]]]

ALPHABET = [
    LOG('a'),
    ['expr', 'x', ['bin', '+', ['var', 'x'], num(1)]],
    ['jump', 'L1', None],
    ['jump', 'L2', None],
    ['jump', 'L1', X_LT(2)],
    ['jump', 'L2', X_LT(3)],
    ['label', 'L1'],
    ['label', 'L2'],
    ['return', ['var', 'x']],
    ['return', None],
    ['expr', 'y', ['call', 'ff', []]],
    ['expr', None, ['call', 'gg', [X_LT(1)]]],
    ['expr', 'y', ['call', 'gg', [['var', 'y']]]],
    ['expr', 'y', ['call', 'hh', [num(0)]]],
    ['jump', 'L2', ['var', 'eo']],          # a RAW conditional jump on an empty object (truthy in BareScript)
]
CALLS = (10, 11, 12, 13)


def nested_fn_model(r):
    """a function statement INSIDE a function body (schema-valid; the parser never emits it): executing it binds a GLOBAL function"""
    inner1 = ['function', 'inner', ['q'], False, False, [LOG('inner v1'), ['return', ['bin', '+', ['var', 'q'], num(1)]]]]
    inner2 = ['function', 'inner', ['q'], False, False, [LOG('inner v2'), ['return', ['bin', '+', ['var', 'q'], num(100)]]]]
    outer = ['function', 'outer', ['p'], False, False,
             [LOG('outer'), r.choice([inner1, inner2]), ['expr', 'z', ['call', 'inner', [['var', 'p']]]], ['return', ['var', 'z']]]]
    body = [outer] + ([inner1] if r.random() < 0.5 else []) + \
           [['expr', 'x', ['call', 'outer', [num(1)]]], ['expr', 'y', ['call', 'inner', [num(2)]]], LOG('m'),
            ['expr', 'y', ['bin', '+', ['var', 'y'], ['call', 'inner', [['var', 'x']]]]], ['return', ['var', 'y']]]
    return body


def random_model(r):
    labels = r.choice([['L1', 'L2', 'L3', 'M'], ['L1', 'L2', 'L3', 'M'], ['L1', '', 'L3', 'M']])      # ('' is a schema-valid label name)
    n = r.randint(5, 40)
    body = []
    for _ in range(n):
        c = r.random()
        if c < 0.2:
            body.append(LOG(r.choice('abc')))
        elif c < 0.4:
            body.append(['expr', r.choice(['x', 'y']), ['bin', r.choice(['+', '-', '*']), ['var', r.choice(['x', 'y'])], num(r.randint(0, 3))]])
        elif c < 0.52:
            body.append(['jump', r.choice(labels), None])
        elif c < 0.7:
            body.append(['jump', r.choice(labels), ['bin', r.choice(['<', '>', '==']), ['var', r.choice(['x', 'y'])], num(r.randint(0, 4))]]
                        if r.random() < 0.85 else ['jump', r.choice(labels), ['var', r.choice(['eo', 'x', 'y', 'nn', 'nn'])]])
        elif c < 0.88:
            body.append(['label', r.choice(labels)])
        elif c < 0.93:
            body.append(['return', ['var', 'x']] if r.random() < 0.7 else ['return', None])
            if r.random() < 0.12:
                # a jump condition / return value / expression statement is computed by SCRIPT rules: the names of the expression built-ins
                # (len, abs, max ...) are not functions there - `Undefined function`
                alias = r.choice(['len', 'abs', 'max', 'round', 'now'])
                e = ['call', alias, [['var', 'x']]]
                body[-1] = r.choice([['return', e], ['jump', r.choice(labels), e], ['expr', 'y', e],
                                     ['jump', r.choice(labels), ['bin', '<', e, num(2)]]])
        elif c < 0.97:
            body.append(['expr', 'y', ['call', r.choice(['ff', 'gg', 'hh2']), [['var', 'x']]]])
        else:
            # a function statement in the middle of the list RE-binds the name: later calls run the new body (its own labels)
            body.append(['function', r.choice(['gg', 'hh2']), ['q'], False, False, [s for s in random_model_small(r) if s[0] != 'function']])
    fns = [FF, GG, HH] if r.random() < 0.7 else []
    if r.random() < 0.5:
        fb = [s for s in (random_model_small(r)) if s[0] != 'function']
        fns.append(['function', 'hh2', ['q'], False, r.random() < 0.3, fb])
    return fns + body


def redefine_model(r):
    """define hh2, call it, define it AGAIN with other label positions, call it again (twice)"""
    call = lambda a: ['expr', 'y', ['call', 'hh2', [a]]]     # noqa: E731
    fn = lambda: ['function', 'hh2', ['q'], False, False, [s for s in random_model_small(r) if s[0] != 'function']]     # noqa: E731
    return [fn(), call(num(0)), ['expr', 'x', ['var', 'y']], call(num(1)), fn(), call(num(0)), LOG('m'), call(num(1)),
            ['expr', 'x', ['bin', '+', ['var', 'x'], ['var', 'y']]], ['return', ['var', 'x']]]


def random_model_small(r):
    out = []
    for _ in range(r.randint(1, 8)):
        c = r.random()
        if c < 0.3:
            out.append(LOG('h'))
        elif c < 0.5:
            out.append(['jump', r.choice(['L1', 'H']), ['bin', '<', ['var', 'q'], num(2)]] if r.random() < 0.6 else ['jump', 'H', None])
        elif c < 0.7:
            out.append(['label', r.choice(['H', 'L1'])])
        elif c < 0.85:
            out.append(['expr', 'q', ['bin', '+', ['var', 'q'], num(1)]])
        else:
            out.append(['return', ['var', 'q']])
    return out


def canon_num(v):
    return v


def ref_run(model, mx):
    g = {'x': 0.0, 'y': None, 'eo': {}, 'nn': float('nan')}      # (NaN is a number that is not 0: truthy)
    for name in ('systemLog',):
        g[name] = refinterp.LibFn(name)
    ref = refinterp.Ref(g, mx, 'jump')
    out = {}
    try:
        val = ref.exec_jump(model, None)
        out['res'] = val
    except refinterp.RtError as exc:
        out['rt'] = str(exc)
    out['log'] = list(ref.log)
    out['count'] = ref.count
    out['globals'] = {k: v for k, v in g.items() if not isinstance(v, (refinterp.LibFn, refinterp.RefFn))}
    out['fnames'] = sorted(k for k, v in g.items() if isinstance(v, refinterp.RefFn))
    return out


def tree_plain(t):
    """worker tree -> plain python value (numbers as float)"""
    k = t[0]
    if k == 'null':
        return None
    if k == 'bool':
        return bool(t[1])
    if k == 'int':
        return float(int(t[1]))
    if k == 'flt':
        return float.fromhex(t[1])
    if k == 'str':
        return t[1]
    if k == 'arr':
        return [tree_plain(x) for x in t[1]]
    if k == 'obj':
        return {kk: tree_plain(vv) for kk, vv in t[1]}
    return ('opaque', k)


def same(a, b):
    if isinstance(a, bool) or isinstance(b, bool):
        return isinstance(a, bool) and isinstance(b, bool) and a == b
    if isinstance(a, (int, float)) and isinstance(b, (int, float)):
        return float(a) == float(b) or (a != a and b != b)          # (NaN is the same value as NaN here)
    if isinstance(a, list) and isinstance(b, list):
        return len(a) == len(b) and all(same(x, y) for x, y in zip(a, b))
    if isinstance(a, dict) and isinstance(b, dict):
        return a.keys() == b.keys() and all(same(a[k], b[k]) for k in a)
    return type(a) is type(b) and a == b


def run(tier):
    chk = core.Check(PID, tier)
    chk.assumptions = ['CPython recursion limit not modelled (call depth stays below 50)',
                       'statement lists are schema-valid models built from the alphabet documented in the evidence']
    proof_ok = chk.prove('Props/C08.v', extra_targets=['Model/Run.vo'])
    model_ok = proof_ok or chk.model_ready(['Model/Run.vo'])
    r = core.rng('c08')
    mx = 60
    models = []     # (tag, statement list)
    maxlen = 4 if tier == 'quick' else 5
    for n in range(0, maxlen + 1):
        for combo in itertools.product(range(len(ALPHABET)), repeat=n):
            # the functions are only prepended when the list calls one: otherwise a label can be the FIRST statement of the list
            pre = [FF, GG, HH] if any(i in CALLS for i in combo) else []
            models.append((f'len{n}', pre + [ALPHABET[i] for i in combo]))
    n_rand = 1500 if tier == 'quick' else 20000
    for _ in range(n_rand):
        models.append(('random', random_model(r)))
    for _ in range(n_rand // 3):
        models.append(('redefine', redefine_model(r)))
    for _ in range(40):
        models.append(('nested-fn', nested_fn_model(r)))

    cases = [{'model': m, 'globals': {'x': interp.vflt(0.0), 'y': ['null'], 'eo': ['obj', 1, []], 'nn': ['flt', 'nan']}, 'max': mx, 'twice': True, 'rerun_same_options': True} for _, m in models]
    impl = core.run_impl('run_script', cases)

    dist = {}
    nontrivial = set()
    for (tag, m), res in zip(models, impl):
        dist[tag] = dist.get(tag, 0) + 1
        src = repr(m)
        if 'host' in res:
            chk.oracle_fail.append({'class': 'host-exception', 'model': m, 'got': res})
            continue
        if res.get('model_mutated'):
            chk.oracle_fail.append({'class': 'execution-modified-the-model', 'model': m})
            continue
        if res.get('repeat_same') is False:
            chk.oracle_fail.append({'class': 'second-run-differs', 'model': m})
            continue
        sec = res.get('second')        # the same model executed again with the SAME options object and equal globals
        if sec is not None and any(sec.get(k) != res.get(k) for k in ('res', 'rt', 'log', 'count')):
            chk.oracle_fail.append({'class': 'second-run-with-the-same-options-object-differs', 'model': m,
                                    'first': {k: res.get(k) for k in ('res', 'rt', 'log', 'count')}, 'second': sec})
            continue
        try:
            exp = ref_run(m, mx)
        except refinterp.Unsupported:
            continue
        except RecursionError:
            continue
        ok = True
        if 'rt' in exp:
            ok = res.get('rt') == exp['rt']
        else:
            ok = 'res' in res and same(tree_plain(res['res']), exp['res'])
        got_g = {k: tree_plain(v) for k, v in res['globals'] if v[0] != 'fun'}
        got_f = sorted(k for k, v in res['globals'] if v[0] == 'fun')
        ok = ok and res['log'] == exp['log'] and res['count'] == exp['count'] and same(got_g, exp['globals']) and got_f == exp['fnames']
        if not ok:
            chk.oracle_fail.append({'class': 'differs-from-reference-semantics', 'model': m, 'max': mx,
                                    'expected': {k: (v if k != 'globals' else repr(v)) for k, v in exp.items()},
                                    'got': {k: res.get(k) for k in ('res', 'rt', 'log', 'count', 'globals')}})
        if any(s[0] == 'jump' for s in m) and any(s[0] == 'label' for s in m):
            nontrivial.add(src)

    # ---- correspondence with the Coq model
    corr_n = declined = 0
    if model_ok:
        budget = {'len0': 10**9, 'len1': 10**9, 'len2': 10**9, 'len3': 900, 'len4': 1500, 'len5': 2500, 'random': 700}
        if tier == 'thorough':
            budget = {k: v * 4 for k, v in budget.items()}
        by_tag = {}
        for i, (tag, _) in enumerate(models):
            by_tag.setdefault(tag, []).append(i)
        pick = []
        for tag, idxs in by_tag.items():
            if len(idxs) > budget.get(tag, 500):
                idxs = sorted(r.sample(idxs, budget.get(tag, 500)))
            pick += idxs
        terms, used = [], []
        for i in pick:
            if 'host' in impl[i]:
                continue
            try:
                terms.append(interp.run_term(cases[i], impl[i], models[i][1], fuel=4000))
                used.append(i)
            except interp.Unencodable:
                continue
        codes, errors = core.coq_codes('c08', interp.IMPORTS, terms)
        corr_n = len(used)
        for k, log in errors:
            chk.corr_fail.append({'class': 'case-file-did-not-evaluate', 'shard': k, 'log': log[-800:]})
        bad = [used[j] for j, c in enumerate(codes) if c == 0]
        declined = sum(1 for c in codes if c == 2)
        fuel_out = [used[j] for j, c in enumerate(codes) if c == 3]
        for i in bad[:15]:
            chk.corr_fail.append({'class': 'model-differs', 'model': models[i][1], 'impl': impl[i]})
        if len(bad) > 15:
            chk.corr_fail.append({'class': 'model-differs', 'more': len(bad) - 15})
        for i in fuel_out[:3]:
            chk.corr_fail.append({'class': 'model-out-of-fuel', 'model': models[i][1]})

    chk.coverage = {
        'evaluations': len(models),
        'distinct_nontrivial': len(nontrivial),
        'rule': '+ round 7: names of expression built-ins (len, abs, max ...) called in jump conditions / return values / expression statements are undefined functions; every statement list of length <= %d over the 15-statement alphabet (three one-level functions prepended when one is called), plus random models of '
                '5-40 statements with up to 3 functions; non-trivial = contains at least one jump and one label, distinct by statement list'
                % maxlen,
        'exhaustive': True,
        'exhaustive_part': f'all statement lists of length 0..{maxlen} over the alphabet ({sum(15**k for k in range(maxlen + 1))})',
        'alphabet': [repr(a) for a in ALPHABET],
        'distribution': dist,
        'correspondence_cases': corr_n,
        'model_declined': declined,
        'samples': [{'model': models[i][1], 'impl': {k: impl[i].get(k) for k in ('res', 'rt', 'log', 'count')}}
                    for i in (200, 3000, len(models) - 1) if i < len(models)],
    }
    return chk.finish(TRUSTED)
