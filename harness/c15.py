"""C15 - array, object and string functions obey their sequence / map / string contracts under any history of calls.

proof         : coq/Props/C15.v (model = Model/LibSeq.v over the argument table REGENERATED from library.py)
direct oracle : operation sequences (<= 30 calls) over a pool of aliased containers, run through REAL scripts
                (parse_script + execute_script); after every statement the whole reachable object graph (incl. aliasing) is
                compared with an independent reference written over Python lists/dicts/strs (harness/libref.py):
                result, mutation of exactly the passed container, fresh copies, failure value + nothing changed on failure;
                regexEscape(s) compiled with `re` matches exactly s; percent-decoding urlEncode*(s) gives s.
correspondence: the same sequences (modelled functions only) run by the Coq model inside Coq; final state of all
                variables and the heap compared up to the naming of locations.
"""
import json
import math
import os
import sys

from . import core
from .core import cstr, cflt, clist, cZ, cnat, cbool  # noqa: F401
from . import libref
from .libref import Tag, Fail, Check, OutOfSpec

sys.path.insert(0, os.path.join(os.path.dirname(os.path.abspath(__file__)), 'impl_workers'))
import graphdump  # noqa: E402

PID = 'C15'
TRUSTED = [
    'Coq 8.16.1 kernel + coqc; vm_compute for the finite table obligations and for running the model (no native_compute)',
    'Print Assumptions of every C15 theorem: Closed under the global context (no axioms)',
    'tools/translate_argspecs.py: copies every value_args_model literal, the failure value of each value_args_validate call, '
    'the safe= sets of the urllib quote calls (Python ast) and dumps re._special_chars_map / urllib._ALWAYS_SAFE from the interpreter',
    'Model/LibSeq.v: hand transliteration of the array*/object*/string* functions, value_args_validate, re.escape, '
    'urllib.parse.quote and the list/dict/str primitives they call (validated by the correspondence)',
    'harness/libref.py: the reference list/dict/str semantics used as the direct oracle; CPython re / urllib.parse.unquote '
    'for the regexEscape and URL round-trip oracles',
]

MODELLED = ['arrayCopy', 'arrayDelete', 'arrayExtend', 'arrayGet', 'arrayIndexOf', 'arrayLastIndexOf', 'arrayLength', 'arrayNew',
            'arrayNewSize', 'arrayPop', 'arrayPush', 'arraySet', 'arrayShift', 'arraySlice',
            'objectAssign', 'objectCopy', 'objectDelete', 'objectGet', 'objectHas', 'objectKeys', 'objectNew', 'objectSet',
            'stringCharCodeAt', 'stringEndsWith', 'stringStartsWith', 'stringFromCharCode', 'stringIndexOf', 'stringLastIndexOf',
            'stringLength', 'stringRepeat', 'stringReplace', 'stringSlice', 'stringSplit', 'stringTrim',
            'regexEscape', 'urlEncode', 'urlEncodeComponent']
ORACLE_ONLY = ['arrayJoin', 'arraySort', 'stringLower', 'stringUpper', 'stringNew']

# parameter kinds used by the generator (NOT the reference's table): what a well-formed call looks like
GEN = {
    'arrayCopy': ['arr'], 'arrayDelete': ['arr', 'idx'], 'arrayExtend': ['arr', 'arr'], 'arrayGet': ['arr', 'idx'],
    'arrayIndexOf': ['arr', 'elem', '?idx'], 'arrayJoin': ['arr', 'sep'], 'arrayLastIndexOf': ['arr', 'elem', '?idx'],
    'arrayLength': ['arr'], 'arrayNew': ['*any'], 'arrayNewSize': ['?count', '?any'], 'arrayPop': ['arr'],
    'arrayPush': ['arr', '*any'], 'arraySet': ['arr', 'idx', 'any'], 'arrayShift': ['arr'], 'arraySlice': ['arr', '?idx', '?idx'],
    'arraySort': ['arr'],
    'objectAssign': ['obj', 'obj'], 'objectCopy': ['obj'], 'objectDelete': ['obj', 'key'], 'objectGet': ['obj', 'key', '?any'],
    'objectHas': ['obj', 'key'], 'objectKeys': ['obj'], 'objectNew': ['*kv'], 'objectSet': ['obj', 'key', 'any'],
    'stringCharCodeAt': ['str', 'idx'], 'stringEndsWith': ['str', 'sub'], 'stringStartsWith': ['str', 'sub'],
    'stringFromCharCode': ['*code'], 'stringIndexOf': ['str', 'sub', '?idx'], 'stringLastIndexOf': ['str', 'sub', '?idx'],
    'stringLength': ['str'], 'stringLower': ['str'], 'stringUpper': ['str'], 'stringNew': ['any'], 'stringRepeat': ['str', 'count'],
    'stringReplace': ['str', 'sub', 'sub'], 'stringSlice': ['str', 'idx', '?idx'], 'stringSplit': ['str', 'sub'],
    'stringTrim': ['str'], 'regexEscape': ['str'], 'urlEncode': ['str'], 'urlEncodeComponent': ['str'],
}
STRS = ['', 'a', 'b', 'ab', 'ba', 'abab', 'a,b,,c', ' a b ', 'n', 'a.b*c', 'x+y?', 'A b/c?d=e&f', 'aXbXc', 'zz']
HARD_STRS = ['\ufeffbom', 'mob\ufeff', ' \ufeff x \ufeff ', '\u00a0nbsp\u2003', '\x1c sep \x1f', 'été', 'a\nb', '\t x  ', "it's", 'back\\slash', '"q"', '中文', '\U0001f600!', 'á', '\x00\x7f',
             '100% sure', '[a-z]{2}|(b)^$', 'a#b ~c', ' pad ', 'İIß']
KEYS = ['a', 'b', 'n', 'k1', '']


# ---------------------------------------------------------------------------- argument descriptors
def lit_value(a):
    k = a[0]
    if k == 'num':
        return float(a[1])
    if k == 'str':
        return a[1]
    if k == 'null':
        return None
    if k == 'bool':
        return a[1]
    raise ValueError(a)


def render_num(x):
    if x == math.floor(x) and abs(x) < 1e15:
        return str(int(x))
    return repr(float(x))


def simple_str(s):
    return all(32 <= ord(c) < 127 and c not in "'\\" for c in s)


class Script:
    """one operation sequence: ops + the script text that performs it"""

    def __init__(self):
        self.ops = []          # JSON-able descriptors
        self.globals = {}      # name -> hard string
        self.uses_fn = False

    def arg_text(self, a):
        k = a[0]
        if k == 'var':
            return f'x{a[1]}'
        if k == 'num':
            return render_num(a[1])
        if k == 'null':
            return 'null'
        if k == 'bool':
            return 'true' if a[1] else 'false'
        if k == 'str':
            if simple_str(a[1]):
                return "'" + a[1] + "'"
            for name, s in self.globals.items():
                if s == a[1]:
                    return name
            name = f'g{len(self.globals)}'
            self.globals[name] = a[1]
            return name
        raise ValueError(a)

    def text(self):
        lines = []
        body = []
        for k, op in enumerate(self.ops):
            if 'f' in op:
                rhs = op['f'] + '(' + ', '.join(self.arg_text(a) for a in op['args']) + ')'
            elif 'lit' in op:
                rhs = self.arg_text(op['lit'])
            elif 'alias' in op:
                rhs = f'x{op["alias"]}'
            elif op['special'] == 'regex':
                rhs = "regexNew('a+')"
            elif op['special'] == 'date':
                rhs = 'datetimeNew(2020, 1, 2)'
            else:
                rhs = 'fn0'
                self.uses_fn = True
            body.append(f'x{k} = {rhs}')
            body.append('snap()')
        if self.uses_fn:
            lines += ['function fn0(a):', '    return a', 'endfunction']
        return '\n'.join(lines + body) + '\n'

    def text_plain(self):
        """the same history without the snapshot calls, returning every variable: for the WHOLE-interpreter correspondence"""
        src = self.text()
        body = [ln for ln in src.split('\n') if ln and ln != 'snap()']
        return '\n'.join(body + ['return arrayNew(' + ', '.join(f'x{k}' for k in range(len(self.ops))) + ')']) + '\n'


DATE_US = 1577923200000000     # 2020-01-02T00:00:00Z


# ---------------------------------------------------------------------------- generator (runs the reference alongside)
class Gen:
    def __init__(self, r, funcs, malformed=0.2):
        self.r = r
        self.funcs = funcs
        self.malformed = malformed
        self.sc = Script()
        self.vals = []          # reference value of x_k

    def vars_of(self, pred):
        return [i for i, v in enumerate(self.vals) if pred(v)]

    def add(self, op, value):
        self.sc.ops.append(op)
        self.vals.append(value)

    def any_arg(self, containers=True):
        r = self.r
        c = r.random()
        if c < 0.4 and self.vals:
            idxs = list(range(len(self.vals))) if containers else self.vars_of(lambda v: not isinstance(v, (list, dict)))
            if idxs:
                return ['var', r.choice(idxs)]
        return r.choice([['null'], ['bool', True], ['bool', False], ['num', 0.0], ['num', 1.0], ['num', 2.0], ['num', -1.0],
                         ['num', 1.5], ['num', 7.0], ['str', r.choice(STRS)], ['str', r.choice(KEYS)]])

    def wrong_arg(self):
        """a value of any type, for the wrong-typed stream"""
        r = self.r
        kinds = [lambda v: v is None, lambda v: isinstance(v, bool), libref.is_num, lambda v: isinstance(v, str),
                 lambda v: isinstance(v, list), lambda v: isinstance(v, dict),
                 lambda v: isinstance(v, Tag) and v.kind == 'fn', lambda v: isinstance(v, Tag) and v.kind == 'regex',
                 lambda v: isinstance(v, Tag) and v.kind == 'date']
        pred = r.choice(kinds)
        idxs = self.vars_of(pred)
        if idxs and r.random() < 0.8:
            return ['var', r.choice(idxs)]
        return r.choice([['null'], ['bool', True], ['num', 1.0], ['num', 0.5], ['num', -1.0], ['str', 'a'], ['str', '1']])

    def value_of(self, a):
        return self.vals[a[1]] if a[0] == 'var' else lit_value(a)

    def pick_var(self, pred):
        idxs = self.vars_of(pred)
        return ['var', self.r.choice(idxs)] if idxs else None

    def gen_call(self, f):
        r = self.r
        args = []
        first_len = None
        first_val = None
        for kind in GEN[f]:
            optional = kind.startswith('?')
            star = kind.startswith('*')
            kind = kind.lstrip('?*')
            if optional and r.random() < 0.35:
                break
            if star:
                n = r.choice([0, 1, 1, 2, 3])
                for _ in range(n):
                    if kind == 'any':
                        args.append(self.any_arg())
                    elif kind == 'kv':
                        args.append(['str', r.choice(KEYS)])
                        if r.random() < 0.9:
                            args.append(self.any_arg())
                    elif kind == 'code':
                        args.append(['num', float(r.choice([97, 98, 233, 0x4e2d, 0x1f600, 32, 0, 0x10ffff, 0xd800, -1, 65.5, 0x110000]))]
                                    if r.random() < 0.25 else ['num', float(r.choice([97, 98, 99, 233, 0x4e2d, 0x1f600, 32]))])
                continue
            if kind in ('arr', 'obj', 'str'):
                pred = {'arr': lambda v: isinstance(v, list), 'obj': lambda v: isinstance(v, dict), 'str': lambda v: isinstance(v, str)}[kind]
                a = self.pick_var(pred)
                if kind == 'str' and (a is None or r.random() < 0.5):
                    a = ['str', r.choice(STRS)]
                if a is None:
                    a = self.any_arg()
                args.append(a)
                if first_len is None:
                    v = self.value_of(a)
                    first_val = v
                    first_len = len(v) if isinstance(v, (list, dict, str)) else 0
            elif kind == 'idx':
                n = first_len or 0
                x = float(r.randint(-2, n + 2))
                if r.random() < 0.08:
                    x += 0.5
                args.append(['num', x])
            elif kind == 'count':
                args.append(['num', float(r.choice([0, 1, 2, 3, 3, -1, 1.5]))])
            elif kind == 'elem':
                if isinstance(first_val, list) and first_val and r.random() < 0.7:
                    e = r.choice(first_val)
                    idxs = [i for i, v in enumerate(self.vals) if v is e]
                    if idxs and isinstance(e, (list, dict, Tag)):
                        args.append(['var', r.choice(idxs)])
                    elif e is None or isinstance(e, (bool, str)) or libref.is_num(e):
                        args.append(['null'] if e is None else ['bool', e] if isinstance(e, bool) else ['str', e] if isinstance(e, str)
                                    else ['num', float(e)])
                    else:
                        args.append(self.any_arg())
                else:
                    args.append(self.any_arg(containers=(f not in ('arrayIndexOf', 'arrayLastIndexOf') or True)))
            elif kind == 'key':
                if isinstance(first_val, dict) and first_val and r.random() < 0.6:
                    args.append(['str', r.choice(list(first_val))])
                else:
                    args.append(['str', r.choice(KEYS)])
            elif kind == 'sub':
                s = first_val if isinstance(first_val, str) else ''
                c = r.random()
                if s and c < 0.5:
                    i = r.randrange(len(s))
                    j = r.randint(i, min(len(s), i + 2))
                    args.append(['str', s[i:j]])
                else:
                    args.append(['str', r.choice(['', 'a', 'b', ',', 'ab', 'X', ' ', 'zzz'])])
            elif kind == 'sep':
                args.append(['str', r.choice([',', '', ', ', '-'])])
            elif kind == 'any':
                args.append(self.any_arg())
            else:
                raise ValueError(kind)
        tag = 'valid'
        if r.random() < self.malformed:
            m = r.random()
            if m < 0.25 and args:
                args.pop()
                tag = 'missing'
            elif m < 0.45:
                args.append(self.wrong_arg())
                tag = 'surplus'
            elif args:
                args[r.randrange(len(args))] = self.wrong_arg()
                tag = 'wrong-type'
        # callback forms are outside this property (C04/C09/C11): never pass a function as arraySort's comparator;
        # a function as the needle of arrayIndexOf is allowed (the reference knows the identity function)
        if f == 'arraySort' and len(args) >= 2 and isinstance(self.value_of(args[1]), Tag) and self.value_of(args[1]).kind == 'fn':
            args[1] = ['num', 1.0]
        return {'f': f, 'args': args, 'tag': tag}


def apply_ref(vals, op):
    """run one op on the reference state; returns (kind, value) with kind in ok / fail / check / adopt"""
    if 'lit' in op:
        return 'ok', lit_value(op['lit'])
    if 'alias' in op:
        return 'ok', vals[op['alias']]
    if 'special' in op:
        k = op['special']
        return 'ok', Tag(k, DATE_US if k == 'date' else None)
    args = [vals[a[1]] if a[0] == 'var' else lit_value(a) for a in op['args']]
    try:
        res = libref.REF[op['f']](args)
    except Fail as exc:
        return 'fail', exc.value
    except OutOfSpec:
        return 'adopt', None
    if isinstance(res, Check):
        return 'check', res
    return 'ok', res


def gen_sequence(r, funcs, length, malformed):
    g = Gen(r, funcs, malformed)
    # the pool: two arrays, an alias, an object, a string, and one value of every other type
    init = [{'f': 'arrayNew', 'args': [['num', 1.0], ['str', 'a'], ['null']][:r.randint(0, 3)], 'tag': 'init'},
            {'f': 'objectNew', 'args': [['str', 'a'], ['num', 1.0], ['str', 'n'], ['null']][:2 * r.randint(0, 2)], 'tag': 'init'},
            {'alias': 0}, {'special': 'fn'}, {'special': 'regex'}, {'special': 'date'},
            {'lit': ['str', r.choice(STRS + HARD_STRS)]}, {'f': 'arrayNew', 'args': [['num', 2.0], ['var', 0]][:r.randint(0, 2)], 'tag': 'init'}]
    for op in init:
        kind, v = apply_ref(g.vals, op)
        g.add(op, v)
    weights = [3 if f in ('arrayPush', 'arraySet', 'objectSet', 'arraySlice', 'arrayCopy', 'objectGet', 'arrayGet') else 1 for f in funcs]
    for _ in range(length):
        c = r.random()
        if c < 0.05:
            op = {'alias': r.randrange(len(g.vals))}
        elif c < 0.08:
            op = {'lit': ['str', r.choice(STRS + HARD_STRS)]}
        else:
            op = g.gen_call(r.choices(funcs, weights)[0])
        try:
            kind, v = apply_ref(g.vals, op)
        except RecursionError:
            break                      # cyclic containers compared / serialised: outside the reference
        if kind in ('check', 'adopt'):
            v = 'pending'          # a string whose exact value only the run decides (the oracle adopts it after checking)
        g.add(op, v)
    return g.sc


def dump_ref(vals):
    return graphdump.dump(vals, libref.classify)


def canon_dump(d):
    """numbers by value (int and float spellings of a number are the same script value)"""
    def cv(x):
        if x[0] == 'i':
            return ['n', str(int(x[1]))]
        if x[0] == 'f':
            f = float.fromhex(x[1])
            if f == math.floor(f) and not math.isinf(f):
                return ['n', str(int(f))]
            return ['n', x[1]]
        return x
    return {'vars': [cv(x) for x in d['vars']],
            'cells': [[c[0], [cv(x) for x in c[1]]] if c[0] == 'A' else [c[0], [[k, cv(x)] for k, x in c[1]]] for c in d['cells']]}


def scalar_from_dump(x):
    k = x[0]
    if k == 'null':
        return True, None
    if k == 'bool':
        return True, x[1]
    if k == 'i':
        return True, int(x[1])
    if k == 'f':
        return True, float.fromhex(x[1])
    if k == 'str':
        return True, x[1]
    return False, None


def oracle_sequence(sc, res):
    """replay the reference against the implementation's snapshots; returns (failure dict or None, stats)"""
    vals = []
    stats = {'calls': 0, 'fail_expected': 0, 'checks': 0, 'adopted': 0}
    snaps = res.get('snaps', [])
    if 'exc' in res:
        return {'class': 'script-raised', 'got': {k: res[k] for k in ('exc', 'msg')}}, stats
    if len(snaps) != len(sc.ops):
        return {'class': 'missing-snapshots', 'got': len(snaps), 'expected': len(sc.ops)}, stats
    for k, op in enumerate(sc.ops):
        before = canon_dump(dump_ref(vals)) if 'f' in op else None
        try:
            kind, v = apply_ref(vals, op)
        except RecursionError:
            return None, stats
        snap = snaps[k]
        if 'f' in op:
            stats['calls'] += 1
        if kind == 'fail':
            stats['fail_expected'] += 1
            after = canon_dump(dump_ref(vals))
            assert after == before, 'reference mutated its arguments on a failing call'
        if kind in ('check', 'adopt'):
            ok, got = scalar_from_dump(snap['vars'][k])
            if kind == 'check':
                stats['checks'] += 1
                if not ok or not v.pred(got):
                    return {'class': 'result-property-fails', 'step': k, 'op': op, 'required': v.what, 'got': snap['vars'][k]}, stats
            else:
                stats['adopted'] += 1
                if not ok:
                    return None, stats
            v = got
        vals.append(v)
        exp = canon_dump(dump_ref(vals))
        got = canon_dump(snap)
        if exp != got:
            cls = 'wrong-result-or-state'
            if kind == 'fail':
                cls = 'failure-value-or-arguments-changed'
            elif exp['vars'][:k] == got['vars'][:k] and exp['vars'][k] != got['vars'][k] and exp['vars'][k][0] in ('a', 'o') \
                    and got['vars'][k][0] in ('a', 'o'):
                cls = 'aliasing-differs (fresh vs shared)'
            return {'class': cls, 'step': k, 'op': op, 'expected': exp, 'got': got}, stats
    return None, stats


# ---------------------------------------------------------------------------- Coq encoding
def coq_num_lit(x):
    return f'(VNum (NFlt {cflt(x)}))'


def coq_arg(a, sc):
    k = a[0]
    if k == 'var':
        return f'(AVar {a[1]})'
    if k == 'num':
        return f'(ALit {coq_num_lit(a[1])})'
    if k == 'str':
        return f'(ALit (VStr {cstr(a[1])}))'
    if k == 'null':
        return '(ALit VNull)'
    return f'(ALit (VBool {cbool(a[1])}))'


def coq_op(op, sc):
    if 'f' in op:
        return f'(OCall {cstr(op["f"])} {clist([coq_arg(a, sc) for a in op["args"]])})'
    if 'alias' in op:
        return f'(OAlias {op["alias"]})'
    if 'lit' in op:
        return f'(OLit {coq_arg(op["lit"], sc)[6:-1]})'
    return {'fn': '(OLit (VFun 0%N))', 'regex': '(OLit (VRegex 0%N))', 'date': f'(OLit (VDate {cZ(DATE_US)}))'}[op['special']]


def coq_dv(x):
    k = x[0]
    if k == 'null':
        return 'DNull'
    if k == 'bool':
        return f'(DBool {cbool(x[1])})'
    if k == 'i':
        return f'(DNum (NInt {cZ(int(x[1]))}))'
    if k == 'f':
        return f'(DNum (NFlt {cflt(float.fromhex(x[1]))}))'
    if k == 'str':
        return f'(DStr {cstr(x[1])})'
    if k == 'date':
        return f'(DDate {cZ(int(x[1]))})'
    if k == 'fn':
        return 'DFun'
    if k == 'regex':
        return 'DRegex'
    if k == 'a':
        return f'(DArrRef {x[1]})'
    if k == 'o':
        return f'(DObjRef {x[1]})'
    raise ValueError(x)


def coq_term(sc, snap):
    ops = clist([coq_op(op, sc) for op in sc.ops])
    vars_ = clist([coq_dv(x) for x in snap['vars']])
    cells = clist([f'(DArr {clist([coq_dv(x) for x in c[1]])})' if c[0] == 'A'
                   else f'(DObj {clist(["(" + cstr(k) + ", " + coq_dv(x) + ")" for k, x in c[1]])})' for c in snap['cells']])
    return f'state_matches {vars_} {cells} (run_ops {ops} ([], []))'


# ---------------------------------------------------------------------------- exhaustive small families
def family_indices():
    """every index function x array/string length 0..3 x every index -2..len+2 (and a fractional one)"""
    seqs = []
    for f, kinds in GEN.items():
        pos = [i for i, k in enumerate(kinds) if k.lstrip('?') == 'idx']
        if not pos or kinds[0] not in ('arr', 'str'):
            continue
        for n in range(0, 4):
            idx_values = [float(i) for i in range(-2, n + 3)] + [0.5]
            combos = [[i] for i in idx_values] if len(pos) == 1 else [[i, j] for i in idx_values for j in idx_values]
            if len(pos) == 2:
                combos += [[i] for i in idx_values]
            for combo in combos:
                sc = Script()
                if kinds[0] == 'arr':
                    sc.ops.append({'f': 'arrayNew', 'args': [['num', float(k + 10)] for k in range(n)], 'tag': 'init'})
                else:
                    sc.ops.append({'lit': ['str', 'abca'[:n]]})
                sc.ops.append({'alias': 0})
                args = [['var', 0]]
                ci = 0
                for k in kinds[1:]:
                    kk = k.lstrip('?')
                    if kk == 'idx':
                        if ci < len(combo):
                            args.append(['num', combo[ci]])
                            ci += 1
                    elif kk == 'elem':
                        args.append(['num', 10.0 + (n - 1 if n else 0)] if f == 'arrayLastIndexOf' else ['num', 10.0])
                    elif kk == 'sub':
                        args.append(['str', 'a'])
                    elif kk == 'any':
                        args.append(['str', 'new'])
                sc.ops.append({'f': f, 'args': args, 'tag': 'family-index'})
                sc.ops.append({'f': 'arrayLength' if kinds[0] == 'arr' else 'stringLength', 'args': [['var', 1]], 'tag': 'family-index'})
                seqs.append(sc)
    return seqs


def family_wrong_types():
    """every function x every parameter position x a value of every type, plus one missing and one surplus argument"""
    seqs = []
    base = [{'f': 'arrayNew', 'args': [['num', 1.0], ['str', 'a'], ['null']], 'tag': 'init'},
            {'f': 'objectNew', 'args': [['str', 'a'], ['num', 1.0], ['str', 'n'], ['null']], 'tag': 'init'},
            {'alias': 0}, {'special': 'fn'}, {'special': 'regex'}, {'special': 'date'}, {'lit': ['str', 'abcab']},
            {'f': 'arrayNew', 'args': [['num', 2.0], ['var', 0]], 'tag': 'init'}]
    good = {'arr': ['var', 0], 'obj': ['var', 1], 'str': ['var', 6], 'idx': ['num', 1.0], 'count': ['num', 2.0], 'elem': ['str', 'a'],
            'key': ['str', 'a'], 'sub': ['str', 'b'], 'sep': ['str', ','], 'any': ['num', 5.0], 'kv': ['str', 'k'], 'code': ['num', 97.0]}
    every = [['null'], ['bool', True], ['bool', False], ['num', 1.0], ['num', 0.0], ['num', -1.0], ['num', 0.5], ['str', 'a'], ['str', ''],
             ['var', 0], ['var', 1], ['var', 3], ['var', 4], ['var', 5], ['var', 7]]
    for f, kinds in GEN.items():
        ks = [k.lstrip('?*') for k in kinds]
        full = [good[k] for k in ks]
        variants = [('valid', full)]
        for i in range(len(full)):
            for w in every:
                if f == 'arraySort' and i >= 1:
                    continue
                a = list(full)
                a[i] = w
                variants.append(('wrong-type', a))
            variants.append(('missing', full[:i]))
        for w in every:
            if f == 'arraySort' and w == ['var', 3]:
                continue
            variants.append(('surplus', full + [w]))
        for tag, a in variants:
            sc = Script()
            sc.ops = [dict(o) for o in base]
            sc.ops.append({'f': f, 'args': a, 'tag': 'family-' + tag})
            # observe every container afterwards through a second call
            sc.ops.append({'f': 'arrayLength', 'args': [['var', 2]], 'tag': 'family-observe'})
            seqs.append(sc)
    return seqs


def family_strings(r, n_random):
    """regexEscape / urlEncode* / the string functions on every ASCII character and on hard Unicode strings"""
    seqs = []
    singles = [chr(c) for c in range(0, 0x180)] + [' ', '中', '\U0001f600', '\ud800', '\udfff', '�', '\U0010ffff']
    alphabet = list('ab.*+?()[]{}|^$\\-#&~ \t\n/:\'"%=<>_') + ['é', '中', '\U0001f600', ' ']
    strings = singles + HARD_STRS + STRS
    for _ in range(n_random):
        strings.append(''.join(r.choice(alphabet) for _ in range(r.randint(2, 8))))
    for i in range(0, len(strings), 6):
        sc = Script()
        for s in strings[i:i + 6]:
            sc.ops.append({'lit': ['str', s]})
            k = len(sc.ops) - 1
            for f in ('regexEscape', 'urlEncode', 'urlEncodeComponent', 'stringLength', 'stringTrim'):
                sc.ops.append({'f': f, 'args': [['var', k]], 'tag': 'family-string'})
        seqs.append(sc)
    return seqs


# ---------------------------------------------------------------------------- the check
def run(tier):
    chk = core.Check(PID, tier)
    chk.assumptions = ['CPython list/dict/str/re/urllib semantics as transliterated in Model/LibSeq.v',
                       'callback forms (arraySort with a comparator) and inf/nan indices are outside the quantifier',
                       'the scripts bind every result to a fresh variable; the object graph reachable from the variables is the observation']
    proof_ok = chk.prove('Props/C15.v')
    model_ok = proof_ok or chk.model_ready(['Model/LibSeq.vo'])

    r = core.rng('c15')
    thorough = tier == 'thorough'
    seqs = []          # (Script, tag, modelled_only)
    # corpus (hand seeds / past failures)
    cdir = os.path.join(core.VERIF, 'corpus', PID)
    if os.path.isdir(cdir):
        for name in sorted(os.listdir(cdir)):
            with open(os.path.join(cdir, name), encoding='utf-8') as fh:
                data = json.load(fh)
            for item in data if isinstance(data, list) else [data]:
                sc = Script()
                sc.ops = item['ops']
                seqs.append((sc, 'corpus', all(o.get('f', 'arrayNew') in MODELLED for o in sc.ops)))
    for sc in family_indices():
        seqs.append((sc, 'family-index', True))
    for sc in family_wrong_types():
        seqs.append((sc, 'family-types', all(o.get('f', 'arrayNew') in MODELLED for o in sc.ops)))
    for sc in family_strings(r, 300 if not thorough else 3000):
        seqs.append((sc, 'family-string', True))
    n_model = 1500 if not thorough else 16000
    n_all = 1500 if not thorough else 16000
    n_mal = 600 if not thorough else 6000
    for _ in range(n_model):
        seqs.append((gen_sequence(r, MODELLED, r.randint(5, 30), 0.15), 'random-modelled', True))
    for _ in range(n_all):
        seqs.append((gen_sequence(r, MODELLED + ORACLE_ONLY * 3, r.randint(5, 30), 0.15), 'random-all', False))
    for _ in range(n_mal):
        seqs.append((gen_sequence(r, MODELLED + ORACLE_ONLY, r.randint(3, 30), 0.7), 'malformed', False))

    payload = []
    for sc, tag, _ in seqs:
        src = sc.text()
        payload.append({'src': src, 'globals': sc.globals})
    impl = core.run_impl('libseq', payload)

    # ---- direct oracle
    dist = {}
    totals = {'calls': 0, 'fail_expected': 0, 'checks': 0, 'adopted': 0}
    per_fn = {}
    op_tags = {}
    nontrivial = 0
    for (sc, tag, _), res, pl in zip(seqs, impl, payload):
        dist[tag] = dist.get(tag, 0) + 1
        fail, stats = oracle_sequence(sc, res)
        for k in totals:
            totals[k] += stats[k]
        for op in sc.ops:
            if 'f' in op:
                per_fn[op['f']] = per_fn.get(op['f'], 0) + 1
                op_tags[op.get('tag')] = op_tags.get(op.get('tag'), 0) + 1
        if stats['calls'] >= 5:
            nontrivial += 1
        if fail is not None:
            fail['source'] = pl['src']
            fail['globals'] = pl['globals']
            fail['ops'] = sc.ops
            fail['stream'] = tag
            chk.oracle_fail.append(fail)

    # ---- correspondence: the Coq model on the modelled-only sequences
    corr_n = 0
    if model_ok:
        def in_model(i):
            sc, _, mo = seqs[i]
            if not mo or not sc.ops or 'exc' in impl[i] or len(impl[i].get('snaps', [])) != len(sc.ops):
                return False
            final = impl[i]['snaps'][-1]['vars']
            for op in sc.ops:       # callback forms are not modelled: a function as the needle of arrayIndexOf/arrayLastIndexOf
                if op.get('f') in ('arrayIndexOf', 'arrayLastIndexOf') and len(op['args']) >= 2 and op['args'][1][0] == 'var' \
                        and final[op['args'][1][1]][0] == 'fn':
                    return False
            return True
        pick = [i for i in range(len(seqs)) if in_model(i)]
        budget = 2500 if not thorough else 20000
        fixed = [i for i in pick if seqs[i][1] != 'random-modelled']
        rnd = [i for i in pick if seqs[i][1] == 'random-modelled']
        if len(fixed) > budget * 2 // 3:
            fixed = sorted(r.sample(fixed, budget * 2 // 3))
        if len(rnd) > budget - len(fixed):
            rnd = sorted(r.sample(rnd, max(0, budget - len(fixed))))
        pick = fixed + rnd
        terms = [coq_term(seqs[i][0], impl[i]['snaps'][-1]) for i in pick]
        bad, errors = core.coq_bools('c15', 'Model.Base Model.Num Model.LibVal Model.LibSeq', terms, shard=60)
        corr_n = len(pick)
        for k, log in errors:
            chk.corr_fail.append({'class': 'case-file-did-not-evaluate', 'shard': k, 'log': log[-800:]})
        for b in bad[:10]:
            i = pick[b]
            sc = seqs[i][0]
            shown = core.coq_show('c15', 'Model.Base Model.Num Model.LibVal Model.LibSeq',
                                  f'run_ops {clist([coq_op(op, sc) for op in sc.ops])} ([], [])')
            chk.corr_fail.append({'class': 'model-differs', 'source': payload[i]['src'], 'globals': payload[i]['globals'],
                                  'impl_final': impl[i]['snaps'][-1], 'model': shown[-3000:]})
        if len(bad) > 10:
            chk.corr_fail.append({'class': 'model-differs', 'more': len(bad) - 10})

    # ---- correspondence 2: the same histories through the WHOLE interpreter model (Model/Interp.v exec + Model/LibAll.v libfull,
    #      i.e. LibSeq lifted to the interpreter's world): statement execution, call wrapper, lifting and heap split all in the loop
    interp_n = interp_declined = 0
    if model_ok and chk.model_ready(['Model/Run.vo']):
        from . import interp as ip
        cand = [i for i in range(len(seqs)) if in_model(i) and not any('special' in o and o['special'] != 'fn' for o in seqs[i][0].ops)]
        budget2 = 400 if not thorough else 4000
        if len(cand) > budget2:
            cand = sorted(r.sample(cand, budget2))
        cases2 = [{'text': seqs[i][0].text_plain(), 'globals': {k: ['str', v] for k, v in seqs[i][0].globals.items()}, 'max': 5000,
                   'want_model': True} for i in cand]
        # arraySort with a script comparator whose results are fractions, negated, or constant (the sign decides, never the magnitude)
        import functools
        pyc = {'(a - b) / 8': lambda a, b: (a - b) / 8, 'b - a': lambda a, b: b - a, '(a - b) * 0.5': lambda a, b: (a - b) * 0.5,
               'a * 0.25 - b * 0.25': lambda a, b: a * 0.25 - b * 0.25, '0': lambda a, b: 0,
               'if(a < b, 0 - 0.001, if(a > b, 0.001, 0))': lambda a, b: -0.001 if a < b else (0.001 if a > b else 0)}
        sort_expect = {}
        for body, fpy in pyc.items():
            for _ in range(4 if not thorough else 40):
                xs = [r.choice([0, 1, 2, 3, 0.5, 1.5, 2.25, -1, 7]) for _ in range(r.randint(0, 7))]
                src = (f"function cmpf(a, b):\n    return {body}\nendfunction\narr = arrayNew({', '.join(map(str, xs))})\n"
                       "srt = arraySort(arr, cmpf)\nreturn arrayNew(arr, srt, arraySort(arrayCopy(arr)))\n")
                sort_expect[len(cases2)] = (sorted(xs, key=functools.cmp_to_key(fpy)), sorted(xs), src)
                cases2.append({'text': src, 'globals': {}, 'max': 5000, 'want_model': True})
        impl2 = core.run_impl('run_script', cases2)
        for ci, (want, plain, src) in sort_expect.items():       # direct oracle: a stable sort by the SIGN of the comparator's result
            got = ip.plain_of_tree(impl2[ci]['res']) if 'res' in impl2[ci] else None
            if not (isinstance(got, list) and len(got) == 3 and [float(x) for x in got[0]] == [float(x) for x in want]
                    and [float(x) for x in got[1]] == [float(x) for x in want] and [float(x) for x in got[2]] == [float(x) for x in plain]):
                chk.oracle_fail.append({'class': 'arraySort-with-a-comparator-is-not-the-stable-sort-by-sign', 'source': src,
                                        'expected': [want, want, plain], 'got': impl2[ci].get('res') or impl2[ci]})
        terms2, used2 = [], []
        for c, res in zip(cases2, impl2):
            if 'model' not in res or 'host' in res:
                continue
            try:
                terms2.append(ip.run_term(c, res, res['model'], fuel=4000))
                used2.append(c)
            except (ip.Unencodable, ValueError):
                pass
        codes2, errors2 = core.coq_codes('c15i', ip.IMPORTS, terms2, shard=40)
        interp_n = len(used2)
        for k, log in errors2:
            chk.corr_fail.append({'class': 'case-file-did-not-evaluate', 'shard': k, 'log': log[-800:]})
        interp_declined = sum(1 for c in codes2 if c == 2)
        for j, c in enumerate(codes2):
            if c in (0, 3) and len(chk.corr_fail) < 12:
                chk.corr_fail.append({'class': 'interpreter-model-differs' if c == 0 else 'interpreter-model-out-of-fuel',
                                      'source': used2[j]['text'], 'globals': used2[j]['globals']})

    chk.coverage = {
        'evaluations': totals['calls'],
        'distinct_nontrivial': nontrivial,
        'rule': 'library calls issued from real scripts, each followed by a snapshot of the whole object graph reachable from all '
                'variables (aliasing included) compared with the reference; non-trivial = sequences with >= 5 library calls',
        'sequences': len(seqs), 'distribution': dist, 'calls_per_function': dict(sorted(per_fn.items())), 'call_kinds': op_tags,
        'calls_expected_to_fail': totals['fail_expected'], 'result_property_checks (regexEscape/urlEncode)': totals['checks'],
        'adopted_results (outside the reference)': totals['adopted'],
        'exhaustive': True,
        'exhaustive_part': 'every index function x length 0..3 x index -2..len+2 (+0.5); every function x every parameter position x '
                           'a value of every type, missing and surplus arguments; regexEscape/urlEncode* on every code point < 0x180',
        'correspondence_cases': corr_n, 'interpreter_correspondence_cases': interp_n, 'interpreter_model_declined': interp_declined,
        'samples': [{'src': payload[i]['src'][:600]} for i in (0, len(seqs) // 2, len(seqs) - 1)],
    }
    return chk.finish(TRUSTED)


def replay(data):
    print(json.dumps(data, indent=1)[:6000])
    return 0
