"""C19 - data functions implement their relational meaning; CSV typing round-trips.

proof        : coq/Props/C19.v (model = Model/Data.v + Model/DataCsv.v)
direct oracle: tables <= 12 rows x 5 fields (duplicate keys, nulls, missing fields, mixed key types, colliding names a/a2/a3,
               key strings with JSON punctuation) run through dataFilter / dataCalculatedField / dataSort / dataTop /
               dataAggregate / dataJoin both from REAL scripts (tables built from literals, so every number is a float) and
               through the exported Python functions (ints and floats), compared with a reference written over plain Python
               lists/dicts (Fractions for sums/means, first-appearance grouping by exact value, stable insertion sort under
               the C11 reference comparison), including WHICH result rows are input rows (identity) and that inputs are not
               mutated; typed tables written as CSV (own writer) and read back by dataParseCSV; date-like invalid cells.
correspondence: the Coq model on the same tables (exact: average via the model's correctly rounded ratio, stddev by the
               model's exact variance and the half-ulp test sqrt_is).
"""
import datetime
import json
import math
import os
import re
import unicodedata
import zoneinfo
from fractions import Fraction

from . import core, interp
from .core import cstr, cZ, cN, cnat, cbool, clist, cflt, copt  # noqa: F401
from .c11 import ref_compare, cv_coq, stable_sort

PID = 'C19'
TRUSTED = [
    'Coq 8.16.1 kernel + coqc; vm_compute for the refuted witnesses / non-vacuity examples and for running the model',
    'Print Assumptions of every printed C19 theorem: Closed under the global context (no axioms)',
    'Model/Data.v, Model/DataCsv.v: hand transliteration of data.py (validated by the correspondence); per-row expression evaluation '
    'is a parameter of the theorems, instantiated in the check by the subset evaluator dx_eval',
    'CPython below the model: csv.DictReader, str.splitlines, float repr / float() (C13), datetime (C16), json encoder (C14), '
    'list.sort (C11), statistics.mean / pstdev, sum',
    'harness/c19.py reference semantics (plain lists/dicts, fractions.Fraction, harness/c11.py ref_compare) as the direct oracle',
    'reused theorems: C11 (row comparator, stable sort, min/max), C13 (int text), C14 (encoder injective on canonical values)',
]
UTC = zoneinfo.ZoneInfo('UTC')
EPOCH = datetime.datetime(1, 1, 1)
US = datetime.timedelta(microseconds=1)

FIELDS = ['a', 'b', 'k', 'a2', 'a3', 'c', 'v']
KEYSTR = ['x', 'y', '', 'a,b', 'k.0', '1.0]', 'q"uote', 'etc., x', '1', 'true', 'null', '[1]', 'a\\b', "it's", 'é', '{"a":1.0}',
          '1.0', '1.0,', '.0}', 'x ', '2']
NUMS = [0.0, 1.0, 2.0, 3.0, -1.0, 1.5, 2.5, 0.1, 100.0, 1e-07, 123456789.125, 1e+16, 0.2, 7.0]
DATES = [['naive', 2024, 1, 1, 0, 0, 0, 0], ['naive', 2024, 2, 29, 12, 30, 0, 0], ['naive', 1999, 12, 31, 23, 59, 59, 999000],
         ['naive', 2024, 1, 1, 0, 0, 0, 1000]]


def F(x):
    return ['float', float(x).hex()]


def I(n):
    return ['int', str(int(n))]


def S(s):
    return ['str', s]


NULL = ['null']


# ------------------------------------------------------------------ reference semantics
class Unsupported(Exception):
    pass


def is_num(v):
    return v[0] in ('int', 'float')


def num_val(v):
    return Fraction(int(v[1])) if v[0] == 'int' else Fraction(float.fromhex(v[1]))


def num_py(v):
    return int(v[1]) if v[0] == 'int' else float.fromhex(v[1])


def from_py(x):
    if isinstance(x, bool):
        return ['bool', x]
    if isinstance(x, int):
        return I(x)
    return F(x)


def ref_truthy(v):
    k = v[0]
    if k == 'null':
        return False
    if k == 'str':
        return v[1] != ''
    if k == 'bool':
        return v[1]
    if is_num(v):
        return num_val(v) != 0
    if k == 'arr':
        return len(v[1]) != 0
    return True


def cmp_(a, b):
    return ref_compare(a, b, UTC)


RELOPS = {'==': lambda c: c == 0, '!=': lambda c: c != 0, '<': lambda c: c < 0, '<=': lambda c: c <= 0, '>': lambda c: c > 0,
          '>=': lambda c: c >= 0}


def ref_eval(e, row, variables):
    k = e[0]
    if k == 'var':
        if e[1] in row:
            return row[e[1]]
        return variables.get(e[1], NULL)
    if k == 'lit':
        return e[1]
    if k == 'rel':
        return ['bool', RELOPS[e[1]](cmp_(ref_eval(e[2], row, variables), ref_eval(e[3], row, variables)))]
    if k == 'and':
        a = ref_eval(e[1], row, variables)
        return ref_eval(e[2], row, variables) if ref_truthy(a) else a
    if k == 'or':
        a = ref_eval(e[1], row, variables)
        return a if ref_truthy(a) else ref_eval(e[2], row, variables)
    if k == 'not':
        return ['bool', not ref_truthy(ref_eval(e[1], row, variables))]
    a, b = ref_eval(e[1], row, variables), ref_eval(e[2], row, variables)
    if is_num(a) and is_num(b):
        x, y = num_py(a), num_py(b)
        r = x + y if k == 'add' else x - y if k == 'sub' else x * y
        if isinstance(r, float) and (math.isinf(r) or math.isnan(r)):
            raise Unsupported('overflow')
        return from_py(r)
    if a[0] in ('str', 'naive') or b[0] in ('str', 'naive'):
        raise Unsupported('concatenation / datetime arithmetic')
    return NULL


def expr_text(e):
    k = e[0]
    if k == 'var':
        return e[1]
    if k == 'lit':
        v = e[1]
        if v[0] == 'null':
            return 'null'
        if v[0] == 'bool':
            return 'true' if v[1] else 'false'
        if v[0] == 'str':
            return "'" + v[1] + "'"
        x = num_py(v)
        return str(int(x)) if x == math.floor(x) else repr(float(x))
    if k == 'rel':
        return f'({expr_text(e[2])} {e[1]} {expr_text(e[3])})'
    if k == 'not':
        return f'!({expr_text(e[1])})'
    op = {'and': '&&', 'or': '||', 'add': '+', 'sub': '-', 'mul': '*'}[k]
    return f'({expr_text(e[1])} {op} {expr_text(e[2])})'


def expr_coq(e):
    k = e[0]
    if k == 'var':
        return f'(DVar {cstr(e[1])})'
    if k == 'lit':
        v = e[1]
        if is_num(v):
            v = F(num_py(v))          # literals are parsed as floats
        return f'(DLit {cv_coq(v)})'
    if k == 'rel':
        op = {'==': 'REq', '!=': 'RNe', '<': 'RLt', '<=': 'RLe', '>': 'RGt', '>=': 'RGe'}[e[1]]
        return f'(DRel {op} {expr_coq(e[2])} {expr_coq(e[3])})'
    if k == 'not':
        return f'(DNot {expr_coq(e[1])})'
    c = {'and': 'DAnd', 'or': 'DOr', 'add': 'DAdd', 'sub': 'DSub', 'mul': 'DMul'}[k]
    return f'({c} {expr_coq(e[1])} {expr_coq(e[2])})'


def key_of(v):
    """the class of a key value: equal values (numbers by exact value whatever the spelling) and nothing else"""
    k = v[0]
    if is_num(v):
        return ('num', num_val(v))
    if k == 'naive':
        return ('date', tuple(v[1:8]))
    if k == 'arr':
        return ('arr', tuple(key_of(x) for x in v[1]))
    return (k,) + tuple(v[1:])


def rowd(row):
    return dict((f, v) for f, v in row)


def same_value(a, b):
    """equality of a result value with the expected one: numbers by exact value, everything else structurally"""
    if is_num(a) and is_num(b):
        return num_val(a) == num_val(b)
    return a == b


def same_row(a, b):
    return isinstance(a, list) and len(a) == len(b) and all(isinstance(x, list) and len(x) == 2 and x[0] == y[0] and same_value(x[1], y[1])
                                                            for x, y in zip(a, b))


def same_table(a, b):
    return isinstance(a, list) and len(a) == len(b) and all(same_row(x, y) for x, y in zip(a, b))


def groups(table, keyf):
    order, cls = [], {}
    for i, row in enumerate(table):
        kk = keyf(row)
        if kk not in cls:
            cls[kk] = []
            order.append(kk)
        cls[kk].append(i)
    return [cls[kk] for kk in order]


def cat_keyf(cats):
    if cats is None:
        return lambda row: ()
    return lambda row: tuple(key_of(rowd(row).get(c, NULL)) for c in cats)


def ref_filter(c):
    variables = rowd(c.get('variables') or [])
    keep = [i for i, row in enumerate(c['table']) if ref_truthy(ref_eval(c['ast'], rowd(row), variables))]
    return {'out': [c['table'][i] for i in keep], 'ident': keep, 'input_after': c['table']}


def set_field(row, f, v):
    out = [[k, x] for k, x in row]
    for kv in out:
        if kv[0] == f:
            kv[1] = v
            return out
    out.append([f, v])
    return out


def ref_calc(c):
    variables = rowd(c.get('variables') or [])
    out = [set_field(row, c['field'], ref_eval(c['ast'], rowd(row), variables)) for row in c['table']]
    return {'out': out, 'ident': list(range(len(out))), 'same_list': True, 'input_after': out}


def ref_sort(c):
    t = c['table']

    def rc(p, q):
        for s in c['sorts']:
            desc = len(s) > 1 and ref_truthy(s[1])
            v1, v2 = rowd(t[p]).get(s[0], NULL), rowd(t[q]).get(s[0], NULL)
            r = cmp_(v2, v1) if desc else cmp_(v1, v2)
            if r:
                return r
        return 0
    perm = stable_sort(len(t), rc)
    out = [t[i] for i in perm]
    return {'out': out, 'ident': list(range(len(out))), 'same_list': True, 'input_after': out}


def ref_top(c):
    n = int(num_py(c['count']))
    keep = []
    for g in groups(c['table'], cat_keyf(c.get('cats'))):
        keep += g[:max(n, 0)]
    return {'out': [c['table'][i] for i in keep], 'ident': keep, 'input_after': c['table']}


class Raises(Exception):
    pass


def py_order_kind(vs):
    kinds = set('num' if is_num(v) or v[0] == 'bool' else v[0] for v in vs)
    if len(kinds) != 1 or kinds - {'num', 'str', 'naive'}:
        raise Raises('unorderable')


def ref_measure(fn, vs):
    """-> ('exact', spec) | ('approx', Fraction or float, rel tol) | ('null',)"""
    if not vs:
        return ('exact', NULL)
    if fn == 'count':
        return ('exact', I(len(vs)))
    if fn in ('max', 'min'):
        py_order_kind(vs)
        best = vs[0]
        for v in vs[1:]:
            c = cmp_num_or(v, best)
            if (fn == 'max' and c > 0) or (fn == 'min' and c < 0):
                best = v
        return ('exact', best)
    if not all(is_num(v) or v[0] == 'bool' for v in vs):
        raise Raises('not numbers')
    xs = [Fraction(int(v[1])) if v[0] == 'bool' else num_val(v) for v in vs]
    total = sum(xs)
    all_int = all(v[0] in ('int', 'bool') for v in vs)
    if fn == 'sum':
        if all_int:
            return ('exact', I(total))
        return ('approx', total, 1e-12)
    mean = total / len(vs)
    if fn == 'average':
        if all_int and mean.denominator == 1:
            return ('exact', I(mean))
        return ('approx', mean, 1e-13)
    var = sum((x - mean) ** 2 for x in xs) / len(vs)
    return ('sqrt', var, 1e-9)


def cmp_num_or(a, b):
    if (is_num(a) or a[0] == 'bool') and (is_num(b) or b[0] == 'bool'):
        x = Fraction(int(a[1])) if a[0] == 'bool' else num_val(a)
        y = Fraction(int(b[1])) if b[0] == 'bool' else num_val(b)
        return -1 if x < y else (0 if x == y else 1)
    return cmp_(a, b)


def ref_aggregate(c):
    a = c['aggregation']
    cats = a.get('categories')
    t = c['table']
    names = [m.get('name', m['field']) for m in a['measures']]
    if len(set(names)) != len(names) or set(names) & set(cats or []):
        raise Unsupported('colliding output names')
    out = []
    for g in groups(t, cat_keyf(cats)):
        first = rowd(t[g[0]])
        row = []
        for cat in cats or []:
            row = set_field(row, cat, first.get(cat, NULL))
        for m in a['measures']:
            vs = [rowd(t[i]).get(m['field'], NULL) for i in g]
            vs = [v for v in vs if v != NULL]
            row.append([m.get('name', m['field']), ref_measure(m['function'], vs)])
        out.append(row)
    return {'agg': out, 'input_after': t}


def check_agg(exp_rows, got):
    if not isinstance(got, list) or len(got) != len(exp_rows):
        return False
    for er, gr in zip(exp_rows, got):
        if not isinstance(gr, list) or len(gr) != len(er):
            return False
        for (ef, ev), g in zip(er, gr):
            if not isinstance(g, list) or g[0] != ef:
                return False
            gv = g[1]
            if isinstance(ev, tuple):
                if ev[0] == 'exact':
                    if not same_value(gv, ev[1]) or (is_num(ev[1]) and ev[1][0] == 'int' and gv[0] != 'int'):
                        return False
                elif ev[0] == 'approx':
                    if gv[0] != 'float':
                        return False
                    x = Fraction(float.fromhex(gv[1]))
                    if abs(x - ev[1]) > Fraction(ev[2]) * max(1, abs(ev[1])):
                        return False
                else:
                    if gv[0] != 'float':
                        return False
                    x = float.fromhex(gv[1])
                    target = math.sqrt(float(ev[1]))
                    if x < 0 or abs(x - target) > ev[2] * max(1e-300, target) + (1e-150 if ev[1] == 0 else 0):
                        return False
            elif not same_value(gv, ev):
                return False
    return True


def first_names(table):
    names = []
    for row in table:
        for f, _ in row:
            if f not in names:
                names.append(f)
    return names


def ref_join(c):
    variables = rowd(c.get('variables') or [])
    lt, rt = c['table'], c['right']
    ln, rn = first_names(lt), first_names(rt)
    new = {}
    for f in rn:
        if f not in ln:
            new[f] = f
        else:
            i = 2
            while f + str(i) in ln or f + str(i) in rn:
                i += 1
            new[f] = f + str(i)
    if len(set(new.values())) != len(new):
        raise Unsupported('renaming collision (observation F25)')
    rast = c['rast'] if c.get('rast') is not None else c['ast']
    rkeys = [key_of(ref_eval(rast, rowd(r), variables)) for r in rt]
    out, idl = [], []
    for i, lrow in enumerate(lt):
        lk = key_of(ref_eval(c['ast'], rowd(lrow), variables))
        ms = [j for j in range(len(rt)) if rkeys[j] == lk]
        for j in ms:
            row = [[f, v] for f, v in lrow]
            for f, v in rt[j]:
                row = set_field(row, new[f], v)
            out.append(row)
        if not ms and not c.get('left_join'):
            out.append(lrow)
    return {'out': out, 'ident': [-1] * len(out), 'ident_right': [-1] * len(out), 'input_after': lt, 'right_after': rt}


REF = {'filter': ref_filter, 'calc': ref_calc, 'sort': ref_sort, 'top': ref_top, 'aggregate': ref_aggregate, 'join': ref_join}


# ------------------------------------------------------------------ generators
def gen_value(r, kind, mode):
    c = r.random()
    if c < 0.12:
        return NULL
    if kind == 'num':
        x = r.choice(NUMS[:8] if r.random() < 0.7 else NUMS)
        if mode == 'api' and x == math.floor(x) and abs(x) < 1000 and r.random() < 0.5:
            return I(x)
        return F(x)
    if kind == 'int':
        x = r.choice([0, 1, 2, 3, -1, 5, 7, 100])
        return I(x) if mode == 'api' and r.random() < 0.5 else F(x)
    if kind == 'str':
        return S(r.choice(KEYSTR[:6] if r.random() < 0.5 else KEYSTR))
    if kind == 'bool':
        return ['bool', r.random() < 0.5]
    if kind == 'date':
        return r.choice(DATES)
    return gen_value(r, r.choice(['num', 'str', 'bool', 'int', 'date']), mode)      # mixed


def gen_table(r, mode, fields=None, rows=None, kinds=None):
    nf = r.choice([1, 2, 3, 3, 4, 5])
    fields = fields or r.sample(FIELDS, nf)
    kinds = kinds or {f: r.choice(['num', 'int', 'str', 'mixed', 'num', 'int', 'str', 'bool', 'date']) for f in fields}
    n = r.choice([0, 1, 2, 3, 5, 8, 12]) if rows is None else rows
    t = []
    for _ in range(n):
        fs = list(fields)
        if r.random() < 0.15:
            r.shuffle(fs)
        row = [[f, gen_value(r, kinds[f], mode)] for f in fs if r.random() > 0.1]
        t.append(row)
    return t, fields, kinds


def gen_expr(r, fields, depth, want='bool'):
    names = fields + ['lim', 'sv', 'zz']
    c = r.random()
    if want == 'num':
        if depth == 0 or c < 0.4:
            return ['var', r.choice(names)] if r.random() < 0.7 else ['lit', F(r.choice([0, 1, 2, 1.5, 10]))]
        return [r.choice(['add', 'sub', 'mul']), gen_expr(r, fields, depth - 1, 'num'), gen_expr(r, fields, depth - 1, 'num')]
    if want == 'any':
        if c < 0.5:
            return ['var', r.choice(names)]
        if c < 0.6:
            return ['lit', r.choice([NULL, S('x'), S(''), F(1), ['bool', True]])]
        return gen_expr(r, fields, depth, 'num' if c < 0.8 else 'bool')
    if depth == 0 or c < 0.45:
        lhs = gen_expr(r, fields, 0, 'any') if r.random() < 0.8 else gen_expr(r, fields, 1, 'num')
        rhs = r.choice([['lit', F(1)], ['lit', F(2)], ['lit', S('x')], ['lit', S('1')], ['lit', NULL], ['var', 'lim'], ['var', r.choice(names)],
                        ['lit', ['bool', True]], ['lit', F(1.5)]])
        return ['rel', r.choice(list(RELOPS)), lhs, rhs]
    if c < 0.55:
        return ['var', r.choice(names)]
    if c < 0.65:
        return ['not', gen_expr(r, fields, depth - 1, 'bool')]
    return [r.choice(['and', 'or']), gen_expr(r, fields, depth - 1, r.choice(['bool', 'any'])), gen_expr(r, fields, depth - 1, 'bool')]


def gen_variables(r):
    c = r.random()
    if c < 0.3:
        return None
    v = [['lim', F(r.choice([1, 2, 1.5]))]]
    if c < 0.7:
        v.append(['sv', S(r.choice(['x', '1', '']))])
    return v


def gen_case(r, op, mode):
    c = {'op': op, 'mode': mode}
    if op in ('filter', 'calc'):
        t, fields, _ = gen_table(r, mode)
        c['table'] = t
        c['ast'] = gen_expr(r, fields, r.choice([0, 1, 2]), 'bool' if op == 'filter' else r.choice(['any', 'num', 'bool']))
        c['expr'] = expr_text(c['ast'])
        c['variables'] = gen_variables(r)
        if op == 'calc':
            c['field'] = r.choice(fields + ['n', 'a2'])
    elif op == 'sort':
        t, fields, _ = gen_table(r, mode)
        c['table'] = t
        sorts = []
        for _ in range(r.choice([0, 1, 1, 2, 2, 3])):
            f = r.choice(fields + ['missing'])
            x = r.random()
            sorts.append([f] if x < 0.3 else [f, ['bool', x < 0.65]] if x < 0.9 else [f, r.choice([F(1), F(0), NULL, S('d')])])
        c['sorts'] = sorts
    elif op == 'top':
        t, fields, _ = gen_table(r, mode)
        c['table'] = t
        n = r.choice([1, 1, 2, 3, 12, 20])
        c['count'] = I(n) if mode == 'api' and r.random() < 0.5 else F(n)
        c['cats'] = None if r.random() < 0.25 else r.sample(fields + ['missing'], r.choice([1, 1, 2]))
    elif op == 'aggregate':
        fields = r.sample(FIELDS, r.choice([2, 3, 4, 5]))
        ncat = r.choice([0, 1, 1, 2])
        kinds = {}
        for i, f in enumerate(fields):
            kinds[f] = r.choice(['str', 'mixed', 'int', 'bool', 'date', 'num']) if i < ncat else r.choice(['num', 'int', 'num', 'int', 'str', 'date'])
        t, fields, kinds = gen_table(r, mode, fields, None, kinds)
        c['table'] = t
        a = {}
        if ncat:
            a['categories'] = fields[:ncat] if r.random() < 0.9 else fields[:ncat] + ['missing']
        ms, used = [], set(a.get('categories', []))
        for _ in range(r.choice([1, 2, 3, 4])):
            f = r.choice(fields[ncat:] or fields)
            fn = r.choice(['average', 'count', 'max', 'min', 'stddev', 'sum'])
            m = {'field': f, 'function': fn}
            name = f
            if f in used or r.random() < 0.5:
                name = f'{fn}_{f}{len(ms)}'
                m['name'] = name
            if name in used:
                continue
            used.add(name)
            ms.append(m)
        if not ms:
            ms = [{'field': fields[-1], 'function': 'count', 'name': 'n_'}]
        a['measures'] = ms
        c['aggregation'] = a
    elif op == 'join':
        lf = r.sample(['a', 'b', 'k', 'a2', 'a3'], r.choice([1, 2, 3, 4, 5]))
        rf = r.sample(['a', 'b', 'k', 'a2', 'a3', 'c'], r.choice([1, 2, 3, 4, 5]))
        kf = r.choice([f for f in lf if f in rf] or [lf[0]])
        kk = r.choice(['int', 'str', 'mixed', 'int', 'num'])
        kinds_l = {f: (kk if f == kf else r.choice(['num', 'str', 'int'])) for f in lf}
        kinds_r = {f: (kk if f == kf else r.choice(['num', 'str', 'int'])) for f in rf}
        c['table'] = gen_table(r, mode, lf, r.choice([0, 1, 2, 4, 7, 12]), kinds_l)[0]
        c['right'] = gen_table(r, mode, rf, r.choice([0, 1, 2, 3, 6, 12]), kinds_r)[0]
        x = r.random()
        c['ast'] = ['var', kf] if x < 0.7 else ['add', ['var', kf], ['lit', F(0)]] if x < 0.8 else gen_expr(r, lf, 1, 'any')
        c['expr'] = expr_text(c['ast'])
        c['rast'] = None
        if r.random() < 0.3:
            c['rast'] = ['var', r.choice(rf)] if r.random() < 0.7 else ['mul', ['var', r.choice(rf)], ['lit', F(1)]]
            c['rexpr'] = expr_text(c['rast'])
        c['left_join'] = r.choice([None, None, True, False])
        c['variables'] = gen_variables(r) if r.random() < 0.4 else None
    return c


def corpus_cases():
    """hand seeds: the shapes of the past findings and of the quantifier text"""
    t = [[['k', S('etc., x')], ['v', F(1)]], [['k', S('etc, x')], ['v', F(2)]], [['k', S('1.0]')], ['v', F(3)]], [['k', S('1]')], ['v', F(4)]],
         [['k', F(1)], ['v', F(5)]], [['k', S('1')], ['v', F(6)]], [['k', ['bool', True]], ['v', F(7)]], [['k', NULL], ['v', F(8)]], [['v', F(9)]],
         [['k', F(1)], ['v', NULL]]]
    agg = {'categories': ['k'], 'measures': [{'field': 'v', 'function': fn, 'name': fn} for fn in ('average', 'count', 'max', 'min', 'stddev', 'sum')]}
    cs = []
    for mode in ('script', 'api'):
        cs.append({'op': 'aggregate', 'mode': mode, 'table': t, 'aggregation': agg})
        cs.append({'op': 'aggregate', 'mode': mode, 'table': t, 'aggregation': {'measures': agg['measures']}})
        for n in (1, 2):
            cs.append({'op': 'top', 'mode': mode, 'table': t, 'count': F(n), 'cats': ['k']})
            cs.append({'op': 'top', 'mode': mode, 'table': t, 'count': F(n), 'cats': None})
        left = [[['a', F(1)], ['a2', S('l2')], ['b', F(5)]], [['a', F(1)], ['b', F(6)]], [['a', F(2)], ['b', F(7)]], [['a', S('1')], ['b', F(8)]]]
        right = [[['a', F(1)], ['a2', S('r2')], ['a3', S('r3')], ['c', F(10)]], [['a', F(2)], ['c', F(11)]], [['a', F(2)], ['c', F(12)]],
                 [['a', NULL], ['c', F(13)]]]
        for lj in (None, True, False):
            cs.append({'op': 'join', 'mode': mode, 'table': left, 'right': right, 'ast': ['var', 'a'], 'expr': 'a', 'rast': None, 'left_join': lj,
                       'variables': None})
        cs.append({'op': 'join', 'mode': mode, 'table': t, 'right': t, 'ast': ['var', 'k'], 'expr': 'k', 'rast': None, 'left_join': None,
                   'variables': None})
        cs.append({'op': 'filter', 'mode': mode, 'table': t, 'ast': ['rel', '>', ['var', 'v'], ['var', 'lim']], 'expr': '(v > lim)',
                   'variables': [['lim', F(4)]]})
        cs.append({'op': 'calc', 'mode': mode, 'table': t, 'field': 'k', 'ast': ['mul', ['var', 'v'], ['lit', F(2)]], 'expr': '(v * 2)',
                   'variables': None})
        cs.append({'op': 'sort', 'mode': mode, 'table': t, 'sorts': [['k', ['bool', True]], ['v']]})
        # measures whose mean dwarfs their spread (ids, epoch milliseconds, prices): a one-pass E[x^2] - E[x]^2 loses every digit here
        big = []
        for key, vals in (('ids', [100000001.0, 100000002.0, 100000003.0]), ('ms', [1700000000000.0, 1700000001500.0, 1700000003000.0]),
                          ('price', [250000.01, 250000.02, 250000.04]), ('one', [123456789.25]), ('neg', [-99999999.5, -99999998.5, -100000000.5, -99999997.5])):
            big += [[['k', S(key)], ['v', F(x)]] for x in vals]
        cs.append({'op': 'aggregate', 'mode': mode, 'table': big, 'aggregation': agg})
        cs.append({'op': 'aggregate', 'mode': mode, 'table': big, 'aggregation': {'measures': agg['measures']}})
    return cs


def exhaustive_cases():
    """every table of <= 3 rows over the key values {1, '1', null, missing} with a measure value, x (top 1/2, aggregate count/sum, self-join)"""
    vals = [F(1), S('1'), NULL, None, F(2)]
    cs = []
    tables = [[]]
    for n in (1, 2, 3):
        idx = [[]]
        for _ in range(n):
            idx = [p + [v] for p in idx for v in range(len(vals))]
        for p in idx:
            tables.append([([['k', vals[v]]] if vals[v] is not None else []) + [['v', F(i + 1)]] for i, v in enumerate(p)])
    for i, t in enumerate(tables):
        mode = 'script' if i % 2 == 0 else 'api'
        cs.append({'op': 'top', 'mode': mode, 'table': t, 'count': F(1 + i % 2), 'cats': ['k']})
        cs.append({'op': 'aggregate', 'mode': mode, 'table': t,
                   'aggregation': {'categories': ['k'], 'measures': [{'field': 'v', 'function': 'sum'}, {'field': 'k', 'function': 'count', 'name': 'n'}]}})
        cs.append({'op': 'join', 'mode': mode, 'table': t, 'right': t[::-1], 'ast': ['var', 'k'], 'expr': 'k', 'rast': None,
                   'left_join': [None, True, False][i % 3], 'variables': None})
    return cs


# ------------------------------------------------------------------ oracle on one case
def oracle(c, res):
    """-> failure dict or None"""
    if c['op'] not in REF:
        return None
    try:
        exp = REF[c['op']](c)
    except Unsupported:
        return 'skip'
    except Raises:
        exp = 'raises'
    got_exc = 'exc' in res
    if exp == 'raises':
        if got_exc or (c['mode'] == 'script' and res.get('out') == ['null']):
            return None
        return {'class': f'{c["op"]}-accepted-unaddable-or-unorderable-measure-values', 'expected': 'TypeError (script: null)', 'got': res.get('out')}
    if got_exc:
        return {'class': f'{c["op"]}-raised', 'got': {'exc': res['exc'], 'msg': res['msg']}}
    if c['op'] == 'aggregate':
        if not check_agg(exp['agg'], res['out']):
            return {'class': 'aggregate-wrong-classes-or-measures', 'expected': str(exp['agg'])[:1500], 'got': res['out']}
    elif not same_table(res['out'], exp['out']):
        return {'class': f'{c["op"]}-wrong-rows', 'expected': exp['out'], 'got': res['out']}
    if 'ident' in exp and res.get('ident') != exp['ident']:
        return {'class': f'{c["op"]}-row-identity (result rows must be the input rows / fresh copies)', 'expected': exp['ident'], 'got': res.get('ident')}
    if 'ident_right' in exp and res.get('ident_right') != exp['ident_right']:
        return {'class': f'{c["op"]}-row-identity-right', 'expected': exp['ident_right'], 'got': res.get('ident_right')}
    if exp.get('same_list') and not res.get('same_list'):
        return {'class': f'{c["op"]}-does-not-return-the-same-array'}
    if not same_table(res.get('input_after'), exp['input_after']):
        return {'class': f'{c["op"]}-input-table-changed', 'expected': exp['input_after'], 'got': res.get('input_after')}
    if 'right_after' in exp and not same_table(res.get('right_after'), exp['right_after']):
        return {'class': f'{c["op"]}-right-table-changed', 'expected': exp['right_after'], 'got': res.get('right_after')}
    return None


# ------------------------------------------------------------------ CSV
def csv_cell(text):
    if text == '' or text[0] == ' ' or any(ch in text for ch in ',"'):
        return '"' + text.replace('"', '""') + '"'
    return text


def iso_text(v):
    y, mo, d, h, mi, s, us = v[1:8]
    t = f'{y:04d}-{mo:02d}-{d:02d}T{h:02d}:{mi:02d}:{s:02d}'
    if us:
        t += f'.{us // 1000:03d}'
    return t + '+00:00'


def num_text(x):
    t = repr(float(x))
    if 'e' not in t and t.endswith('.0'):
        t = t[:-2]
    return t


def render_cell(v):
    k = v[0]
    if k == 'null':
        return 'null'
    if k == 'bool':
        return 'true' if v[1] else 'false'
    if k == 'str':
        return v[1]
    if k == 'naive':
        return iso_text(v)
    return num_text(num_py(v))


def is_uni_digit(ch):
    try:
        unicodedata.decimal(ch)
        return True
    except ValueError:
        return False


def ref_parse_datetime(text):
    """independent reading of value_parse_datetime (TZ=UTC): YYYY-MM-DD | YYYY-MM-DDTHH:MM:SS[.f{1,6}](Z|+-HH:MM), calendar-valid"""
    if text.endswith('\n'):
        text = text[:-1]
    if len(text) == 10 and text[4] == '-' and text[7] == '-' and all(is_uni_digit(text[i]) for i in (0, 1, 2, 3, 5, 6, 8, 9)):
        y, m, d = (int(''.join(str(unicodedata.decimal(ch)) for ch in part)) for part in (text[0:4], text[5:7], text[8:10]))
        try:
            datetime.date(y, m, d)
        except ValueError:
            return None
        return ['naive', y, m, d, 0, 0, 0, 0]
    m = re.fullmatch(r'([0-9]{4})-([0-9]{2})-([0-9]{2})T([0-9]{2}):([0-9]{2}):([0-9]{2})(?:\.([0-9]{1,6}))?(Z|[+-][0-9]{2}:[0-9]{2})', text)
    if not m:
        return None
    y, mo, d, h, mi, s = (int(m.group(i)) for i in range(1, 7))
    us = int((m.group(7) or '0').ljust(6, '0'))
    if not (1 <= mo <= 12 and 1 <= y <= 9999 and h < 24 and mi < 60 and s < 60):
        return None
    try:
        base = datetime.datetime(y, mo, d, h, mi, s, us)
    except ValueError:
        return None
    off = 0
    if m.group(8) != 'Z':
        oh, om = int(m.group(8)[1:3]), int(m.group(8)[4:6])
        if oh * 60 + om >= 1440:
            return None
        off = (oh * 60 + om) * (1 if m.group(8)[0] == '+' else -1)
    try:
        w = base - datetime.timedelta(minutes=off)
    except OverflowError:
        return None
    return ['naive', w.year, w.month, w.day, w.hour, w.minute, w.second, w.microsecond // 1000 * 1000]


def ref_parse_number(text):
    try:
        x = float(text)
    except ValueError:
        return None
    return None if math.isnan(x) or math.isinf(x) else x


def ref_infer(text):
    if text in ('', 'null'):
        return None
    if ref_parse_datetime(text) is not None:
        return 'datetime'
    if text in ('true', 'false'):
        return 'boolean'
    if ref_parse_number(text) is not None:
        return 'number'
    return 'string'


def ref_validate_csv(header, rows):
    """rows: lists of cell strings (None = missing).  -> typed table spec or 'error'"""
    types = {}
    for row in rows:
        for f, cell in zip(header, row):
            if cell is not None and types.get(f) is None:
                types[f] = ref_infer(cell)
    out = []
    for row in rows:
        o = []
        for f, cell in zip(header, row):
            t = types.get(f) or 'string'
            if cell is None:
                v = NULL
            elif cell == 'null':
                v = NULL
            elif t == 'string':
                v = S(cell)
            elif cell == '':
                v = NULL
            elif t == 'number':
                x = ref_parse_number(cell)
                if x is None:
                    return 'error'
                v = F(x)
            elif t == 'datetime':
                v = ref_parse_datetime(cell)
                if v is None:
                    return 'error'
            else:
                if cell not in ('true', 'false'):
                    return 'error'
                v = ['bool', cell == 'true']
            o.append([f, v])
        out.append(o)
    return out


DATELIKE = ['2024-02-30', '2024-13-01', '2023-02-29', '2024-00-10', '2024-01-32', '0000-01-01', '2024-01-01T24:00:00Z', '2024-01-01T23:60:00Z',
            '2024-01-01T23:59:60Z', '2024-02-30T00:00:00Z', '2024-01-01T00:00:00+24:00', '2024-01-01T00:00:00+00:60', '2024-1-01', '20240101',
            '2024-01-01T00:00:00', '2024-01-01 00:00:00Z', '9999-12-31T23:59:59-01:00', '0001-01-01T00:00:00+01:00', '2024-06-31',
            '2024-01-01T00:00:00.1234567Z', '2024-01-01t00:00:00z']
DATEOK = ['2024-02-29', '2024-01-01T23:59:59Z', '2024-01-01T00:00:00.5+01:30', '0001-01-01', '9999-12-31', '2024-12-31T23:59:59.999-00:00',
          '２０２４-01-01']
CSV_STR = ['C:\\temp\\new', 'a\\,b', 'q\\"', 'end\\', 'x', 'hello world', 'a,b', 'say "hi"', ' lead', 'trail ', 'q"', ',', '""', 'x,"y",z', 'tab\there', 'café', 'True', 'NULL', 'nul', '1x',
           'e5', '-', '+', '0x10', '1,5', 'inf_', '--1', "it's"]
AMBIG = ['1', '1.5', 'true', 'false', 'null', '', '2024-01-01', '1e+3', ' 7', 'nan', 'inf', '-Infinity', '1_0', ' 1 ', 'Infinity', 'NaN', '١']


def gen_typed_table(r):
    nf = r.choice([1, 2, 3, 4, 5])
    header = r.sample(['a', 'b', 'name, x', 'k"q', 'd', ' sp', 'v'], nf)
    kinds = [r.choice(['num', 'bool', 'date', 'str', 'null']) for _ in header]
    n = r.choice([1, 2, 3, 6, 12])
    rows = []
    for _ in range(n):
        row = []
        for kd in kinds:
            if kd == 'null' or r.random() < 0.2:
                row.append(NULL)
            elif kd == 'num':
                row.append(F(r.choice(NUMS + [-0.5, 1e+22, 5e-324, 1.7976931348623157e+308, 1 / 3, -123.25, 1e-05])))
            elif kd == 'bool':
                row.append(['bool', r.random() < 0.5])
            elif kd == 'date':
                d = r.choice(DATES + [['naive', r.randint(1, 9999), r.randint(1, 12), r.randint(1, 28), r.randint(0, 23), r.randint(0, 59), r.randint(0, 59),
                                       r.choice([0, 0, 1000, 999000, 123000])]])
                row.append(d)
            else:
                row.append(S(r.choice(CSV_STR)))
        rows.append(row)
    return header, rows


def csv_text(header, cells):
    return [','.join(csv_cell(h) for h in header)] + [','.join(csv_cell(x) for x in row) for row in cells]


def split_parts(r, lines):
    """the lines as dataParseCSV arguments: one per line, or joined with newlines, with some null arguments"""
    c = r.random()
    if c < 0.4:
        return list(lines)
    if c < 0.7:
        return ['\n'.join(lines)]
    k = r.randint(0, len(lines))
    return ['\n'.join(lines[:k]) + ('\r\n' if k else ''), None, '\n'.join(lines[k:])] if 0 < k < len(lines) else [None, '\n'.join(lines) + '\n']


# ------------------------------------------------------------------ Coq encoding
def row_coq(row):
    return '[' + '; '.join(f'({cstr(f)}, {cv_coq(v)})' for f, v in row) + ']'


def table_coq(t):
    return '[' + '; '.join(row_coq(r) for r in t) + ']'


def jnum_coq(text):
    m = re.fullmatch(r'(-?)(\d+)(?:\.(\d+))?(?:e([+-]?)(\d+))?', text)
    neg, ip, fp, es, ed = m.groups()
    frac = 'None' if fp is None else f'(Some {cstr(fp)})'
    exp = 'None' if ed is None else f'(Some ({ {"+": "ESPlus", "-": "ESMinus", "": "ESNone"}[es] }, {cstr(ed)}))'
    return f'(JN {cbool(neg == "-")} {cstr(ip)} {frac} {exp})'


def collect_nums_dates(v, nums, dates):
    if is_num(v):
        nums[json.dumps(v)] = v
    elif v[0] == 'naive':
        dates[json.dumps(v)] = v
    elif v[0] == 'arr':
        for x in v[1]:
            collect_nums_dates(x, nums, dates)


def oracle_tables(values):
    """the CPython oracles the key function needs, as finite tables: repr token of every number, ISO text of every datetime"""
    nums, dates = {}, {}
    for v in values:
        collect_nums_dates(v, nums, dates)
    nt = clist([f'({cv_coq(v)[6:-1]}, {jnum_coq(repr(num_py(v)))})' for v in nums.values()])
    dt = clist([f'({cv_coq(v)[7:-1]}, {cstr(iso_text(v))})' for v in dates.values()])
    return nt, dt


PRELUDE = '''Local Open Scope Z_scope.
Definition tzf (t : Z) : Z := 0.
Fixpoint tok_lookup (tbl : list (num * jnum)) (n : num) : jnum :=
  match tbl with [] => JN false [] None None | (k, j) :: r => if num_eqb k n then j else tok_lookup r n end.
Fixpoint dt_lookup (tbl : list (hdate * str)) (d : hdate) : str :=
  match tbl with [] => [] | (k, s) :: r => if hdate_eqb k d then s else dt_lookup r d end.
Definition opt_table (got : option table) (exp : table) : N :=
  match got with Some t => if table_eqb t exp then 1%N else 0%N | None => 2%N end.
Definition dx (vars : row) (e : dexpr) : row -> cv := dx_total tzf vars e.
Definition guard (vars : row) (e : dexpr) (data : table) (c : N) : N := if dx_defined tzf vars e data then c else 2%N.
Definition b2n (b : bool) : N := if b then 1%N else 0%N.
Definition acell_ok (c : acell) (v : cv) : bool :=
  match c with AV x => cv_eqb x v | ASqrt n d => match v with CNum (NFlt f) => sqrt_is f n d | _ => false end end.
Fixpoint arow_ok (a : list (str * acell)) (r : row) : bool :=
  match a, r with
  | [], [] => true
  | (k, c) :: a', (k', v) :: r' => str_eqb k k' && acell_ok c v && arow_ok a' r'
  | _, _ => false
  end.
Fixpoint atable_ok (a : list (list (str * acell))) (t : table) : bool :=
  match a, t with [], [] => true | x :: a', y :: t' => arow_ok x y && atable_ok a' t' | _, _ => false end.
'''
IMPORTS = 'Model.Base Model.Num Model.Arith Model.Compare Model.Json Model.Data'
AGGFN = {'average': 'AAverage', 'count': 'ACount', 'max': 'AMax', 'min': 'AMin', 'stddev': 'AStddev', 'sum': 'ASum'}


def all_values(c):
    vals = [v for t in (c.get('table', []), c.get('right', [])) for row in t for _, v in row]
    vals += [v for _, v in (c.get('variables') or [])]
    return vals


def coq_term(c, res):
    """a Gallina term of type N: 1 agree, 0 differ, 2 the model declines (outside the modelled subset)"""
    op = c['op']
    out = res['out']
    if not isinstance(out, list) or (out and out[0] in ('notalist',)) or any(not isinstance(r, list) or (r and r[0] == 'notarow') for r in out):
        return None
    if any(isinstance(f, list) for r in out for f, _ in r):
        return None
    T = table_coq(c['table'])
    OUT = table_coq(out)
    vars_ = row_coq(c.get('variables') or [])
    if op == 'filter':
        return f'guard {vars_} {expr_coq(c["ast"])} {T} (b2n (table_eqb (filter_data (dx {vars_} {expr_coq(c["ast"])}) {T}) {OUT}))'
    if op == 'calc':
        return (f'guard {vars_} {expr_coq(c["ast"])} {T} '
                f'(b2n (table_eqb (add_calculated_field (dx {vars_} {expr_coq(c["ast"])}) {cstr(c["field"])} {T}) {OUT}))')
    if op == 'sort':
        sorts = clist([f'({cstr(s[0])}, {cbool(len(s) > 1 and ref_truthy(s[1]))})' for s in c['sorts']])
        return f'b2n (table_eqb (sort_data tzf {T} {sorts}) {OUT})'
    vals = all_values(c)
    if op == 'join':
        variables = rowd(c.get('variables') or [])
        try:
            for row in c['table']:
                vals.append(ref_eval(c['ast'], rowd(row), variables))
            for row in c['right']:
                vals.append(ref_eval(c['rast'] if c.get('rast') is not None else c['ast'], rowd(row), variables))
        except Unsupported:
            return None
    nt, dt = oracle_tables(vals)
    keyfun = f'(tok_lookup {nt}) (dt_lookup {dt})'
    if op == 'top':
        cats = 'None' if c.get('cats') is None else f'(Some {clist([cstr(x) for x in c["cats"]])})'
        return f'b2n (table_eqb (top_data (cat_key {keyfun} {cats}) {cZ(int(num_py(c["count"])))} {T}) {OUT})'
    if op == 'aggregate':
        a = c['aggregation']
        cats = 'None' if 'categories' not in a else f'(Some {clist([cstr(x) for x in a["categories"]])})'
        ms = clist([f'(mkMeasure {cstr(m["field"])} {AGGFN[m["function"]]} {copt(cstr(m["name"]) if "name" in m else None)})' for m in a['measures']])
        return (f'match aggregate_data (cat_key {keyfun} {cats}) {cats} {ms} {T} with Some a => b2n (atable_ok a {OUT}) | None => 2%N end')
    if op == 'join':
        le = expr_coq(c['ast'])
        re_ = expr_coq(c['rast']) if c.get('rast') is not None else le
        R = table_coq(c['right'])
        return (f'guard {vars_} {le} {T} (guard {vars_} {re_} {R} (opt_table (join_data (fun r => value_json {keyfun} (dx {vars_} {le} r)) '
                f'(fun r => value_json {keyfun} (dx {vars_} {re_} r)) {cbool(bool(c.get("left_join")))} {T} {R}) {OUT}))')
    return None


# ------------------------------------------------------------------ the check
def run(tier):
    chk = core.Check(PID, tier)
    chk.assumptions = [
        'tables hold numbers, booleans, naive datetimes, strings, nulls (function / regex / container values as keys: outside the quantifier)',
        'rows of a table are distinct objects; no NaN / infinity; -0.0 is kept out of key positions (value_json writes -0 and 0: noted, not asserted)',
        'known findings F23 (datetime key = key of its ISO string) and F24 (int and float >= 1e16 have different keys) are reproduced by two '
        'dedicated probe families only; the main generators never contain such pairs',
        'CSV cells contain no line-break characters (dataParseCSV splits its arguments with str.splitlines: observation, outside the quantifier)',
        'process time zone UTC for the ISO texts (C16 covers zones)']
    proof_ok = chk.prove('Props/C19.v')
    model_ok = proof_ok or chk.model_ready(['Model/Data.vo'])
    thorough = tier == 'thorough'
    r = core.rng('c19')
    env = core.impl_env({'TZ': 'UTC'})

    cases = []          # (case, stream)
    cdir = os.path.join(core.VERIF, 'corpus', PID)
    if os.path.isdir(cdir):
        for name in sorted(os.listdir(cdir)):
            with open(os.path.join(cdir, name), encoding='utf-8') as fh:
                for item in json.load(fh):
                    cases.append((item, 'corpus'))
    for c in corpus_cases():
        cases.append((c, 'corpus'))
    for c in exhaustive_cases():
        cases.append((c, 'exhaustive'))
    per_op = 450 if not thorough else 5000
    for op in ('filter', 'calc', 'sort', 'top', 'aggregate', 'join'):
        for i in range(per_op):
            cases.append((gen_case(r, op, 'script' if i % 2 == 0 else 'api'), 'random'))
    # malformed stream: wrong argument shapes through scripts must give null, never a host exception
    mal = malformed_cases(r, 60 if not thorough else 400)

    impl = core.run_impl('c19_data', [c for c, _ in cases], env=env, shards=core.NPROC)
    dist, fails_by_class = {}, {}
    n_eval = n_skip = nontrivial = 0
    for (c, stream), res in zip(cases, impl):
        key = f'{stream}/{c["op"]}/{c["mode"]}'
        dist[key] = dist.get(key, 0) + 1
        f = oracle(c, res)
        if f == 'skip':
            n_skip += 1
            continue
        n_eval += 1
        if len(c.get('table', [])) >= 3:
            nontrivial += 1
        if f is not None:
            f['input'] = {k: v for k, v in c.items() if k not in ('ast', 'rast')}
            f['source'] = res.get('source')
            f['stream'] = stream
            fails_by_class[f['class']] = fails_by_class.get(f['class'], 0) + 1
            if fails_by_class[f['class']] <= 5:
                chk.oracle_fail.append(f)

    mres = core.run_impl('c19_script', mal, env=env, shards=4)
    for m, res in zip(mal, mres):
        n_eval += 1
        if 'exc' in res and res['exc'].startswith('BareScript'):
            continue        # the language's own error (an expression syntax error is raised to the host since the F17 repair)
        if 'exc' in res:
            chk.oracle_fail.append({'class': 'malformed-call-raised-a-host-exception', 'source': m['src'], 'got': res})
        elif m.get('expect_null') and res.get('out') != ['null']:
            chk.oracle_fail.append({'class': 'malformed-call-did-not-return-null', 'source': m['src'], 'got': res})

    csv_stats = run_csv(chk, r, env, thorough)
    probes = run_probes(chk, env)
    csv_stats['zone_round_trips'] = run_csv_zones(chk)
    csv_stats['container_truthiness_rows'] = run_container_truthiness(chk)

    # ---- correspondence
    corr = {'terms': 0, 'agree': 0, 'declined': 0}
    if model_ok:
        terms, idx = [], []
        budget = 2600 if not thorough else 20000
        order = list(range(len(cases)))
        fixed = [i for i in order if cases[i][1] != 'random']
        rnd = [i for i in order if cases[i][1] == 'random']
        if len(fixed) > budget // 3:
            fixed = sorted(r.sample(fixed, budget // 3))
        if len(rnd) > budget - len(fixed):
            rnd = sorted(r.sample(rnd, budget - len(fixed)))
        for i in fixed + rnd:
            c, _ = cases[i]
            res = impl[i]
            if 'exc' in res or not res.get('is_list'):
                continue
            try:
                t = coq_term(c, res)
            except (Unsupported, AttributeError, ValueError):
                t = None
            if t is not None:
                terms.append(t)
                idx.append(i)
        codes, errors = core.coq_codes('c19', IMPORTS, terms, shard=max(20, -(-len(terms) // core.NPROC)), prelude=PRELUDE)
        corr['terms'] = len(terms)
        for k, log in errors:
            chk.corr_fail.append({'class': 'case-file-did-not-evaluate', 'shard': k, 'log': log[-1500:]})
        nbad = 0
        per_op_declined = {}
        for code, i in zip(codes, idx):
            if code == 1:
                corr['agree'] += 1
            elif code == 2:
                corr['declined'] += 1
                per_op_declined[cases[i][0]['op']] = per_op_declined.get(cases[i][0]['op'], 0) + 1
            elif code == 0:
                nbad += 1
                if nbad <= 8:
                    c = cases[i][0]
                    chk.corr_fail.append({'class': 'model-differs', 'input': {k: v for k, v in c.items() if k not in ('ast', 'rast')},
                                          'impl': impl[i].get('out'), 'term': terms[idx.index(i)][:3000]})
        corr['declined_per_op'] = per_op_declined
        if nbad > 8:
            chk.corr_fail.append({'class': 'model-differs', 'more': nbad - 8})
        corr_csv(chk, csv_stats)

    chk.coverage = {
        'evaluations': n_eval + csv_stats['evaluations'],
        'distinct_nontrivial': nontrivial,
        'rule': '+ round 7: dataFilter over rows whose expression value is a container / datetime / function (BareScript truthiness); one evaluation = one data-function call (from a script or through the exported function) compared with the reference '
                '(rows, order, values, identity of rows, inputs unchanged); non-trivial = tables with >= 3 rows',
        'distribution': dist, 'skipped_outside_reference': n_skip, 'malformed_calls': len(mal),
        'exhaustive': True,
        'exhaustive_part': 'every table of <= 3 rows over key values {1, "1", null, missing, 2} x (top, aggregate, self-join)',
        'csv': {k: v for k, v in csv_stats.items() if k != 'corr'}, 'probes': probes,
        'correspondence_cases': corr['terms'] + csv_stats.get('corr_terms', 0), 'correspondence': corr,
        'samples': [{k: v for k, v in cases[i][0].items() if k not in ('ast', 'rast')} for i in (0, len(cases) // 2, len(cases) - 1)],
    }
    return chk.finish(TRUSTED)


def malformed_cases(r, n):
    shapes = [
        ("return dataTop(arrayNew(objectNew('a', 1)), 1.5)", True), ("return dataTop(arrayNew(objectNew('a', 1)), 0)", True),
        ("return dataTop(arrayNew(objectNew('a', 1)), '1')", True), ("return dataTop(null, 1)", True),
        ("return dataTop(arrayNew(objectNew('a', 1)), 1, 'a')", True),
        ("return dataFilter(arrayNew(objectNew('a', 1)), 1)", True), ("return dataFilter(arrayNew(objectNew('a', 1)), 'a', 5)", True),
        ("return dataFilter(objectNew(), 'a')", True), ("return dataSort(arrayNew(objectNew('a', 1)), 'a')", True),
        ("return dataSort(arrayNew(objectNew('a', 1)))", True),
        ("return dataAggregate(arrayNew(objectNew('a', 1)), objectNew())", True),
        ("return dataAggregate(arrayNew(objectNew('a', 1)), objectNew('measures', arrayNew()))", True),
        ("return dataAggregate(arrayNew(objectNew('a', 1)), objectNew('measures', arrayNew(objectNew('field', 'a', 'function', 'median'))))", True),
        ("return dataAggregate(arrayNew(objectNew('a', 1)), objectNew('categories', arrayNew(), 'measures', arrayNew(objectNew('field', 'a', 'function', 'sum'))))", True),
        ("return dataJoin(arrayNew(objectNew('a', 1)), arrayNew(objectNew('a', 1)))", True),
        ("return dataJoin(arrayNew(objectNew('a', 1)), null, 'a')", True),
        ("return dataCalculatedField(arrayNew(objectNew('a', 1)), 5, 'a')", True),
        ("return dataCalculatedField(arrayNew(objectNew('a', 1)), 'b')", True),
        ("return dataParseCSV(1)", True), ("return dataParseCSV('a,b', 5)", True), ("return dataParseCSV()", False), ("return dataParseCSV(null)", False),
        ("return dataFilter(arrayNew(), 'a')", False), ("return dataSort(arrayNew(), arrayNew())", False),
        ("return dataFilter(arrayNew(objectNew('a', 1)), 'a +')", True), ("return dataCalculatedField(arrayNew(objectNew('a', 1)), 'b', '(a')", True),
        ("return dataJoin(arrayNew(objectNew('a', 1)), arrayNew(objectNew('a', 1)), ')')", True),
        ("return dataAggregate(arrayNew(objectNew('a', 'x'), objectNew('a', 1)), objectNew('measures', arrayNew(objectNew('field', 'a', 'function', 'max'))))", True),
        ("return dataAggregate(arrayNew(objectNew('a', 'x')), objectNew('measures', arrayNew(objectNew('field', 'a', 'function', 'sum'))))", True),
    ]
    out = [{'src': s + '\n', 'expect_null': e} for s, e in shapes]
    pool = ["arrayNew(objectNew('a', 1))", 'null', '1', "'a'", 'true', 'objectNew()', 'arrayNew()', "arrayNew('a')", "arrayNew(arrayNew('a'))", '1.5', '0']
    fns = {'dataFilter': 3, 'dataSort': 2, 'dataTop': 3, 'dataAggregate': 2, 'dataJoin': 6, 'dataCalculatedField': 4, 'dataParseCSV': 2, 'dataValidate': 2}
    names = sorted(fns)
    for _ in range(n):
        f = r.choice(names)
        k = r.randint(0, fns[f] + 1)
        out.append({'src': f'return {f}(' + ', '.join(r.choice(pool) for _ in range(k)) + ')\n', 'expect_null': False})
    return out


def run_container_truthiness(chk):
    """dataFilter keeps the rows whose expression is truthy BY BARESCRIPT RULES, also when the expression's value is a container: an object
    (even an empty one), a non-empty array, a datetime, a function and a regex are true; an empty array, '', 0, null and false are not"""
    metas = [('objectNew()', True), ("objectNew('k', 0)", True), ('arrayNew()', False), ('arrayNew(0)', True), ('null', False), ("''", False),
             ("'0'", True), ('0', False), ('0.5', True), ('false', False), ('true', True), ('datetimeNew(1970, 1, 1)', True), ('systemType', True),
             ("regexNew('')", True), ('jsonParse("{}")', True), ('jsonParse("[]")', False)]
    lines = ['rows = arrayNew(' + ', '.join(f"objectNew('i', {i}, 'meta', {m})" for i, (m, _) in enumerate(metas)) + ')']
    exprs = ['meta', 'i >= 0 && meta', 'meta || false', 'if(true, meta, 1)', '!(!meta)', 'vv && meta']
    for j, e in enumerate(exprs):
        lines.append(f"o{j} = arrayNew()")
        lines.append(f"for row in dataFilter(rows, '{e}', objectNew('vv', objectNew())):")
        lines.append(f"    arrayPush(o{j}, objectGet(row, 'i'))")
        lines.append('endfor')
    lines.append('return arrayNew(' + ', '.join(f'o{j}' for j in range(len(exprs))) + ')')
    text = '\n'.join(lines) + '\n'
    out = core.run_impl('run_script', [{'text': text, 'globals': {}, 'max': 0}], shards=1)[0]
    keep = [float(i) for i, (_, t) in enumerate(metas) if t]
    got = interp.plain_of_tree(out['res']) if 'res' in out else None
    if got != [keep] * len(exprs):
        chk.oracle_fail.append({'class': 'filter-keeps-rows-by-other-than-barescript-truthiness', 'source': text,
                                'input': {'metas': [m for m, _ in metas], 'expressions': exprs}, 'expected': [keep] * len(exprs),
                                'got': got if got is not None else out})
    return len(metas) * len(exprs)


def run_csv_zones(chk):
    """the datetime leg of the CSV round trip in zones WITH daylight saving (the main stream runs under UTC): a datetime written with
    value_string in the process zone and read back by dataParseCSV is the same datetime, in both seasons and next to the transitions"""
    dates = [(2024, 1, 15, 12, 30, 0), (2024, 7, 15, 12, 30, 0), (2024, 3, 10, 3, 30, 0), (2024, 11, 3, 0, 30, 0), (2024, 3, 31, 3, 30, 0),
             (2024, 10, 27, 4, 0, 0), (2024, 4, 7, 1, 0, 0), (2024, 10, 6, 3, 0, 0), (1999, 12, 31, 23, 59, 59), (2038, 6, 1, 0, 0, 0)]
    lines = [f'd{i} = datetimeNew({", ".join(map(str, d))})' for i, d in enumerate(dates)]
    lines.append("rows = dataParseCSV('t', " + ', '.join(f'stringNew(d{i})' for i in range(len(dates))) + ')')
    lines.append('return arrayNew(' + ', '.join(f"d{i} == objectGet(arrayGet(rows, {i}), 't')" for i in range(len(dates))) + ')')
    text = '\n'.join(lines) + '\n'
    n = 0
    for zone in ('America/New_York', 'Europe/Berlin', 'Australia/Lord_Howe', 'Pacific/Chatham', 'America/Santiago', 'UTC'):
        out = core.run_impl('run_script', [{'text': text, 'globals': {}, 'max': 0}], env=core.impl_env({'TZ': zone}), shards=1)[0]
        got = out.get('res')
        want = ['arr', [['bool', True]] * len(dates)]
        n += len(dates)
        if got != want:
            chk.oracle_fail.append({'class': 'csv-datetime-round-trip-differs-in-a-dst-zone', 'source': text, 'zone': zone,
                                    'input': {'TZ': zone, 'dates': dates}, 'got': out})
    return n


def run_csv(chk, r, env, thorough):
    stats = {'evaluations': 0, 'roundtrip_tables': 0, 'datelike_cells': 0, 'raw_tables': 0, 'typed_cells': {}, 'corr': []}
    jobs, meta = [], []
    # (1) typed round trip
    for i in range(250 if not thorough else 3000):
        header, rows = gen_typed_table(r)
        cells = [[render_cell(v) for v in row] for row in rows]
        exp = ref_validate_csv(header, cells)
        typed = [[[f, (F(num_py(v)) if is_num(v) else v)] for f, v in zip(header, row)] for row in rows]
        for mode in ('script', 'api'):
            jobs.append({'op': 'csv', 'mode': mode, 'parts': split_parts(r, csv_text(header, cells))})
            meta.append(('roundtrip', header, cells, typed, exp))
        for row in rows:
            for v in row:
                stats['typed_cells'][v[0]] = stats['typed_cells'].get(v[0], 0) + 1
    # (2) date-like invalid / valid text, ambiguous strings, in type-determining and in later positions
    specials = DATELIKE + DATEOK + AMBIG + CSV_STR[:8]
    for i in range(300 if not thorough else 3000):
        nf = r.choice([1, 2, 3])
        header = ['a', 'b', 'c'][:nf]
        n = r.choice([1, 2, 3, 5])
        cells = [[r.choice(specials) if r.random() < 0.6 else r.choice(['1', 'x', '', 'null', 'true', '2024-02-29']) for _ in header] for _ in range(n)]
        if i < len(DATELIKE):
            cells[0][0] = DATELIKE[i]
        exp = ref_validate_csv(header, cells)
        jobs.append({'op': 'csv', 'mode': 'script' if i % 2 else 'api', 'parts': split_parts(r, csv_text(header, cells))})
        meta.append(('raw', header, cells, None, exp))
        stats['datelike_cells'] += sum(1 for row in cells for x in row if x in DATELIKE)
    res = core.run_impl('c19_data', jobs, env=env, shards=8)
    for job, (kind, header, cells, typed, exp), out in zip(jobs, meta, res):
        stats['evaluations'] += 1
        inp = {'parts': job['parts'], 'mode': job['mode'], 'header': header, 'cells': cells}
        if 'exc' in out and out['exc'] == 'TypeError' and job['mode'] == 'api' and out['msg'].startswith('Invalid "'):
            out = {'out': ['null']}          # validate_data's own error; the script call wrapper turns it into null
        if 'exc' in out:
            chk.oracle_fail.append({'class': 'dataParseCSV-raised', 'input': inp, 'got': out})
            continue
        got = out['out']
        if kind == 'roundtrip':
            stats['roundtrip_tables'] += 1
            if not same_table(got, typed):
                chk.oracle_fail.append({'class': 'csv-typed-round-trip-differs', 'input': inp, 'expected': typed, 'got': got})
                continue
        else:
            stats['raw_tables'] += 1
        if exp == 'error':
            if got != ['null']:
                chk.oracle_fail.append({'class': 'csv-mixed-column-not-rejected', 'input': inp, 'got': got})
        elif not same_table(got, exp):
            cls = 'csv-typing-differs-from-reference'
            if got == ['null'] and any(x in DATELIKE for row in cells for x in row):
                cls = 'csv-date-like-text-aborted-the-parse'
            chk.oracle_fail.append({'class': cls, 'input': inp, 'expected': exp, 'got': got})
        else:
            stats['corr'].append((header, cells, exp))
    return stats


def corr_csv(chk, stats):
    """model validate_data on the cell matrices = what dataParseCSV returned (Model/DataCsv.v), when that model is present"""
    if not os.path.exists(os.path.join(core.COQ, 'Model', 'DataCsv.v')):
        stats['corr_terms'] = 0
        return
    terms = []
    sample = stats['corr'][:700]
    for header, cells, exp in sample:
        T = table_coq([[[f, S(x)] for f, x in zip(header, row)] for row in cells])
        terms.append(f'csv_check {T} {table_coq(exp)}')
    pre = ('Local Open Scope Z_scope.\nDefinition off0 (t : Z) : Z := 0.\n'
           'Definition csv_check (raw exp : table) : bool := match validate_data off0 true raw with VOk _ t => table_eqb t exp | _ => false end.')
    bad, errors = core.coq_bools('c19csv', IMPORTS + ' Model.DataCsv', terms, shard=max(20, -(-len(terms) // core.NPROC)), prelude=pre)
    stats['corr_terms'] = len(terms)
    for k, log in errors:
        chk.corr_fail.append({'class': 'csv-case-file-did-not-evaluate', 'shard': k, 'log': log[-1500:]})
    for b in bad[:5]:
        chk.corr_fail.append({'class': 'csv-model-differs', 'header': sample[b][0], 'cells': sample[b][1], 'impl': sample[b][2]})


def run_probes(chk, env):
    """dedicated probe families for the recorded findings / observations (never part of the main generators)"""
    d = ['naive', 2024, 1, 1, 0, 0, 0, 0]
    agg = {'categories': ['k'], 'measures': [{'field': 'v', 'function': 'sum'}]}
    f23 = [[['k', d], ['v', F(1)]], [['k', S(iso_text(d))], ['v', F(3)]]]
    f24 = [[['k', I(10 ** 16)], ['v', F(1)]], [['k', F(1e16)], ['v', F(2)]]]
    negz = [[['k', F(-0.0)], ['v', F(1)]], [['k', F(0.0)], ['v', F(2)]]]
    left = [[['a', F(1)], ['a1', F(0)], ['a2', F(0)], ['a3', F(0)], ['a4', F(0)]]]
    right = [[['a', F(1)], ['a1', S('R1')]] + [[f'a{i}', F(i)] for i in range(5, 12)]]
    jobs = [{'op': 'aggregate', 'mode': 'api', 'table': f23, 'aggregation': agg}, {'op': 'top', 'mode': 'api', 'table': f23, 'count': I(1), 'cats': ['k']},
            {'op': 'join', 'mode': 'api', 'table': f23[:1], 'right': f23[1:], 'expr': 'k', 'ast': ['var', 'k'], 'rast': None, 'left_join': True,
             'variables': None},
            {'op': 'aggregate', 'mode': 'api', 'table': f24, 'aggregation': agg}, {'op': 'top', 'mode': 'api', 'table': f24, 'count': I(1), 'cats': ['k']},
            {'op': 'aggregate', 'mode': 'api', 'table': negz, 'aggregation': agg},
            {'op': 'join', 'mode': 'api', 'table': left, 'right': right, 'expr': 'a', 'ast': ['var', 'a'], 'rast': None, 'left_join': None,
             'variables': None},
            {'op': 'csv', 'mode': 'api', 'parts': ['a,b\n"x\ny",1']}]
    res = core.run_impl('c19_data', jobs, env=env, shards=1)
    out = {}
    hits23 = [j for j, x in zip(jobs[:3], res[:3]) if x.get('is_list') and len(x['out']) == 1]
    for j in hits23[:1]:
        chk.oracle_fail.append({'class': 'key-collision-datetime-vs-iso-string', 'input': j, 'expected': 'two classes / no join match',
                                'got': 'one class: a datetime and the string of its ISO text share a grouping key'})
    out['F23 datetime key = key of its ISO string (calls showing it)'] = len(hits23)
    hits24 = [j for j, x in zip(jobs[3:5], res[3:5]) if x.get('is_list') and len(x['out']) == 2]
    for j in hits24[:1]:
        chk.oracle_fail.append({'class': 'key-split-int-vs-float-above-1e16', 'input': j, 'expected': 'one class (the values compare equal)',
                                'got': 'two classes: keys 10000000000000000 and 1e+16'})
    out['F24 int / float >= 1e16 split (calls showing it)'] = len(hits24)
    out['observation: -0.0 and 0.0 are different categories'] = bool(res[5].get('is_list') and len(res[5]['out']) == 2)
    r6 = res[6].get('out')
    out['observation F25: join renames both a and a1 to a12 (needs > 5 fields)'] = bool(
        isinstance(r6, list) and r6 and sum(1 for f, _ in r6[0] if f == 'a12') == 1 and len(r6[0]) == 13)
    r7 = res[7].get('out')
    out['observation: a quoted line break inside a CSV cell is lost (str.splitlines)'] = bool(isinstance(r7, list) and r7 and r7[0][0] == ['a', S('xy')])
    return out


def replay(data):
    """re-run the failing inputs of a replay file against the implementation and print what it returns now"""
    for case in data.get('failing_inputs', [])[:20]:
        inp = case.get('input')
        if isinstance(inp, dict) and 'op' in inp:
            c = dict(inp)
            out = core.run_impl('c19_data', [c], env=core.impl_env({'TZ': 'UTC'}), shards=1)
            print(json.dumps({'class': case.get('class'), 'input': inp, 'now': out[0]}, ensure_ascii=True)[:3000])
        else:
            print(json.dumps(case, ensure_ascii=True)[:1500])
    return 0
