"""core.py - shared machinery of every check: translate -> build -> run the model inside Coq
-> compare with the implementation -> verdict, evidence, replay files.

The model is evaluated INSIDE the proof assistant: the harness writes a .v file whose cases
are boolean Gallina terms "model(input) = what the implementation returned", coqc evaluates
them with vm_compute and prints only the indices of the cases that are false.
"""
import concurrent.futures
import glob
import hashlib
import json
import math
import os
import random
import re
import subprocess
import sys
import time

VERIF = os.path.dirname(os.path.dirname(os.path.abspath(__file__)))
REPO = os.environ.get('VERIF_REPO', '/repo')
COQ = os.path.join(VERIF, 'coq')
CASES = os.path.join(COQ, 'cases')
PY = '/venv/bin/python'
NPROC = int(os.environ.get('VERIF_NPROC', '16'))
# where evidence/ and replays/ are written (mutant runs redirect this so that they never clobber real evidence)
OUT = os.environ.get('VERIF_OUT', VERIF)

FORBIDDEN = re.compile(r'\b(Admitted|admit|Axiom|Axioms|Parameter|Parameters|Conjecture|Conjectures|Admit Obligations)\b'
                       r'|Unset\s+Guard|Unset\s+Positivity|Unset\s+Universe|bypass_check|type-in-type|impredicative-set')


def seed():
    try:
        return int(os.environ.get('VERIF_SEED', '20260926'))
    except ValueError:
        return 20260926


def tier(argv_tier=None):
    t = argv_tier or os.environ.get('VERIF_TIER') or 'quick'
    return t if t in ('quick', 'thorough') else 'quick'


def rng(tag):
    """one PRNG per (seed, tag): every random choice of a check derives from VERIF_SEED"""
    h = hashlib.sha256(f'{seed()}:{tag}'.encode()).digest()
    return random.Random(int.from_bytes(h[:8], 'big'))


# ------------------------------------------------------------------ Coq term formatting
def cstr(s):
    out = []
    for ch in s:
        o = ord(ch)
        if 32 <= o < 127 and ch not in '"\\':
            out.append(ch)
        else:
            out.append('\\%06x' % o)
    return '(U "%s")' % ''.join(out)


def cZ(n):
    n = int(n)
    if abs(n) >= 10 ** 300:
        return f'(-{hex(-n)})%Z' if n < 0 else f'({hex(n)})%Z'      # hexadecimal numeral: CPython refuses to print very long ints in decimal
    return f'({n})%Z'


def cN(n):
    return f'{int(n)}%N'


def cnat(n):
    return f'{int(n)}%nat'


def cbool(b):
    return 'true' if b else 'false'


def clist(items):
    return '[' + '; '.join(items) + ']'


def copt(x):
    return 'None' if x is None else f'(Some {x})'


def cflt(x):
    """a python float as a canonical SpecFloat term (binary64)"""
    x = float(x)
    if math.isnan(x):
        return 'SpecFloat.S754_nan'
    neg = cbool(math.copysign(1.0, x) < 0)
    if math.isinf(x):
        return f'(SpecFloat.S754_infinity {neg})'
    if x == 0:
        return f'(SpecFloat.S754_zero {neg})'
    f, k = math.frexp(abs(x))
    m = int(f * (1 << 53))
    e = k - 53
    if e < -1074:
        sh = -1074 - e
        assert m % (1 << sh) == 0
        m >>= sh
        e = -1074
    return f'(SpecFloat.S754_finite {neg} {m}%positive ({e})%Z)'


# ------------------------------------------------------------------ translate / build
def _big_stack():
    # large Gallina literals (long strings, long lists) overflow coqc's default 8 MB stack
    import resource
    try:
        resource.setrlimit(resource.RLIMIT_STACK, (resource.RLIM_INFINITY, resource.RLIM_INFINITY))
    except (ValueError, OSError):
        try:
            soft, hard = resource.getrlimit(resource.RLIMIT_STACK)
            resource.setrlimit(resource.RLIMIT_STACK, (hard, hard))
        except (ValueError, OSError):
            pass


def run(cmd, timeout, cwd=None, env=None, big_stack=False):
    try:
        p = subprocess.run(cmd, cwd=cwd, env=env, stdout=subprocess.PIPE, stderr=subprocess.STDOUT, timeout=timeout, text=True,
                           errors='replace', preexec_fn=_big_stack if big_stack else None)
        return p.returncode, p.stdout
    except subprocess.TimeoutExpired as exc:
        out = exc.stdout if isinstance(exc.stdout, str) else (exc.stdout or b'').decode(errors='replace')
        return 124, out + f'\n[timeout after {timeout}s]'


def gate():
    """refuse to run on a development that declares axioms / admits / weakened checks"""
    bad = []
    for path in glob.glob(os.path.join(COQ, '**', '*.v'), recursive=True):
        if os.sep + 'cases' + os.sep in path:
            continue
        with open(path, encoding='utf-8') as fh:
            text = re.sub(r'\(\*.*?\*\)', '', fh.read(), flags=re.S)
        for m in FORBIDDEN.finditer(text):
            bad.append(f'{os.path.relpath(path, COQ)}: {m.group(0)}')
    return bad


def translate():
    rc, out = run([PY, os.path.join(VERIF, 'tools', 'translate.py')], 300, env={**os.environ, 'VERIF_REPO': REPO})
    return rc == 0, out.strip()


def mkproject():
    run([os.path.join(VERIF, 'tools', 'mkproject.sh')], 120)


def build(targets, timeout=1500):
    """make the given .vo targets (paths relative to coq/); returns (ok, log)"""
    mkproject()
    rc, out = run(['make', '-j', str(NPROC)] + list(targets), timeout, cwd=COQ)
    return rc == 0, out


def first_error(log):
    m = re.search(r'File "([^"]+)", line (\d+), characters [^\n]*\n(Error:?.*?)(?:\n\n|\nmake|\Z)', log, re.S)
    if m:
        return {'file': m.group(1), 'line': int(m.group(2)), 'error': ' '.join(m.group(3).split())[:600]}
    return {'file': None, 'line': None, 'error': log[-600:]}


def enclosing_statement(vfile, line):
    """name of the Theorem/Lemma/... that contains the given line of a .v file"""
    try:
        with open(os.path.join(COQ, vfile) if not os.path.isabs(vfile) else vfile, encoding='utf-8') as fh:
            lines = fh.read().split('\n')
    except OSError:
        return None
    pat = re.compile(r'^\s*(?:Local\s+|Global\s+)?(Theorem|Lemma|Corollary|Example|Fact|Proposition|Remark|Definition|Fixpoint|Instance)\s+([A-Za-z0-9_\']+)')
    for i in range(min(line, len(lines)) - 1, -1, -1):
        m = pat.match(lines[i])
        if m:
            return f'{m.group(1)} {m.group(2)}'
    return None


OBL = re.compile(r'^\s*(?:Local\s+|Global\s+|#\[[^\]]*\]\s*)?(Theorem|Lemma|Corollary|Example|Fact|Proposition|Remark)\s+([A-Za-z0-9_\']+)', re.M)


def dep_cone(prop_file):
    """the .v files (relative to coq/) that Props/<id>.v transitively depends on, itself included"""
    rc, out = run(['coqdep', '-f', '_CoqProject', '-sort'], 120, cwd=COQ)
    order = out.split()
    rc, out = run(['coqdep', '-f', '_CoqProject'], 120, cwd=COQ)
    deps = {}
    for ln in out.split('\n'):
        if ':' not in ln:
            continue
        lhs, rhs = ln.split(':', 1)
        tgt = [t for t in lhs.split() if t.endswith('.vo')]
        if not tgt:
            continue
        src = tgt[0][:-1]
        deps[src] = [d[:-1] for d in rhs.split() if d.endswith('.vo')]
    cone = set()
    todo = [prop_file]
    while todo:
        f = todo.pop()
        if f in cone:
            continue
        cone.add(f)
        todo.extend(deps.get(f, []))
    return sorted(cone), order


def count_obligations(files):
    names = []
    for f in files:
        try:
            with open(os.path.join(COQ, f), encoding='utf-8') as fh:
                text = re.sub(r'\(\*.*?\*\)', '', fh.read(), flags=re.S)
        except OSError:
            continue
        names += [f'{f}:{m.group(2)}' for m in OBL.finditer(text)]
    return names


def assumptions_of(prop_vo_log):
    """collect the 'Print Assumptions' blocks printed while compiling a Props file"""
    res = []
    for m in re.finditer(r'(Closed under the global context|Axioms:\n(?:.+\n?)+?)(?=\n\S|\n?\Z)', prop_vo_log):
        res.append(' '.join(m.group(1).split()))
    return res


# ------------------------------------------------------------------ running the model inside Coq
def _coqc(path, timeout):
    rc, out = run(['coqc', '-Q', '.', 'BS', '-w', '-notation-overridden,-deprecated-since-8.16', path], timeout, cwd=COQ, big_stack=True)
    for ext in ('.vo', '.vok', '.vos', '.glob'):
        try:
            os.remove(path[:-2] + ext)
        except OSError:
            pass
    try:
        os.remove(os.path.join(os.path.dirname(path), '.' + os.path.basename(path)[:-2] + '.aux'))
    except OSError:
        pass
    return rc, out


def coq_bools(name, imports, terms, shard=250, timeout=900, prelude=''):
    """Evaluate boolean Gallina terms with vm_compute; returns (sorted indices of false cases, errors).
    errors is a list of (shard index, log) for shards that did not compile/evaluate."""
    os.makedirs(CASES, exist_ok=True)
    shards = [terms[i:i + shard] for i in range(0, len(terms), shard)]
    paths = []
    for k, sh in enumerate(shards):
        path = os.path.join(CASES, f'{name}_{k}.v')
        with open(path, 'w', encoding='utf-8') as fh:
            fh.write(f'From BS Require Import {imports}.\n{prelude}\n')
            for i, t in enumerate(sh):
                fh.write(f'Definition c{i} : bool := {t}.\n')
            fh.write('Eval vm_compute in (bad_indices [' + '; '.join(f'c{i}' for i in range(len(sh))) + ']).\n')
        paths.append(path)
    bad, errors = [], []
    with concurrent.futures.ThreadPoolExecutor(max_workers=NPROC) as ex:
        for k, (rc, out) in enumerate(ex.map(lambda p: _coqc(p, timeout), paths)):
            m = re.search(r'=\s*\[(.*?)\]\s*:\s*list N', out, re.S)
            if rc != 0 or not m:
                errors.append((k, out[-2000:]))
                continue
            bad += [k * shard + int(x) for x in re.findall(r'(\d+)%N', m.group(1))]
    for p in paths:
        if not any(os.path.basename(p) == f'{name}_{k}.v' for k, _ in errors):
            try:
                os.remove(p)
            except OSError:
                pass
    return sorted(bad), errors


def coq_codes(name, imports, terms, shard=200, timeout=900, prelude=''):
    """Evaluate Gallina terms of type N with vm_compute; returns (list of ints, one per term, None where the
    shard failed; errors).  Used where a case has more than two outcomes (agree / differ / model declined / fuel)."""
    os.makedirs(CASES, exist_ok=True)
    shards = [terms[i:i + shard] for i in range(0, len(terms), shard)]
    paths = []
    for k, sh in enumerate(shards):
        path = os.path.join(CASES, f'{name}_{k}.v')
        with open(path, 'w', encoding='utf-8') as fh:
            fh.write(f'From BS Require Import {imports}.\n{prelude}\n')
            for i, t in enumerate(sh):
                fh.write(f'Definition c{i} : N := {t}.\n')
            fh.write('Eval vm_compute in ([' + '; '.join(f'c{i}' for i in range(len(sh))) + ']).\n')
        paths.append(path)
    codes, errors = [], []
    with concurrent.futures.ThreadPoolExecutor(max_workers=NPROC) as ex:
        for k, (rc, out) in enumerate(ex.map(lambda p: _coqc(p, timeout), paths)):
            m = re.search(r'=\s*\[(.*?)\]\s*:\s*list N', out, re.S)
            vals = [int(x) for x in re.findall(r'(\d+)%N', m.group(1))] if m else []
            if rc != 0 or not m or len(vals) != len(shards[k]):
                errors.append((k, out[-2000:]))
                codes += [None] * len(shards[k])
                continue
            codes += vals
    for k, p in enumerate(paths):
        if not any(k == ek for ek, _ in errors):
            try:
                os.remove(p)
            except OSError:
                pass
    return codes, errors


def coq_show(name, imports, term, timeout=300, prelude=''):
    """Eval vm_compute in <term>; returns the printed text (for replay files)"""
    os.makedirs(CASES, exist_ok=True)
    path = os.path.join(CASES, f'{name}_show.v')
    with open(path, 'w', encoding='utf-8') as fh:
        fh.write(f'From BS Require Import {imports}.\n{prelude}\nEval vm_compute in ({term}).\n')
    rc, out = _coqc(path, timeout)
    try:
        os.remove(path)
    except OSError:
        pass
    return out.strip()


# ------------------------------------------------------------------ implementation side
def impl_env(extra=None):
    env = {k: v for k, v in os.environ.items() if k not in ('PYTHONPATH',)}
    env['PYTHONPATH'] = os.path.join(REPO, 'src')
    env['PYTHONHASHSEED'] = '0'
    env['BARE_SCRIPT_VERIF'] = '1'
    if extra:
        env.update(extra)
    return env


def run_impl(worker, payload, timeout=900, env=None, shards=None):
    """Run harness/impl_workers/<worker>.py in fresh interpreters of the implementation's python with
    /repo/src first on the path; payload (a list) is split over `shards` processes; returns the
    concatenated list of results (one per payload item)."""
    shards = shards or min(NPROC, max(1, len(payload) // 200))
    chunks = [payload[i::shards] for i in range(shards)]
    script = os.path.join(VERIF, 'harness', 'impl_workers', worker + '.py')

    def one(chunk):
        p = subprocess.run([PY, script], input=json.dumps(chunk), stdout=subprocess.PIPE, stderr=subprocess.PIPE,
                           timeout=timeout, text=True, env=env or impl_env())
        if p.returncode != 0:
            raise RuntimeError(f'impl worker {worker} failed (rc={p.returncode}): {p.stderr[-3000:]}')
        return json.loads(p.stdout)
    with concurrent.futures.ThreadPoolExecutor(max_workers=shards) as ex:
        parts = list(ex.map(one, chunks))
    res = [None] * len(payload)
    for s, part in enumerate(parts):
        for j, r in enumerate(part):
            res[s + j * shards] = r
    return res


# ------------------------------------------------------------------ verdict / evidence
def known_findings(pid):
    try:
        with open(os.path.join(VERIF, 'known_findings.json'), encoding='utf-8') as fh:
            data = json.load(fh)
    except OSError:
        return []
    return [f for f in data.get('findings', []) if f.get('property') == pid and f.get('status') == 'known']


def write_replay(pid, name, obj):
    d = os.path.join(OUT, 'replays')
    os.makedirs(d, exist_ok=True)
    path = os.path.join(d, f'{pid}_{name}.json')
    with open(path, 'w', encoding='utf-8') as fh:
        json.dump(obj, fh, indent=1, ensure_ascii=True, default=str)
    return path


def write_evidence(pid, tier_, coverage, wall, violations, assumptions, level='proof'):
    d = os.path.join(OUT, 'evidence')
    os.makedirs(d, exist_ok=True)
    ev = {'property_id': pid, 'tier': tier_, 'seed': seed(), 'level': level, 'coverage': coverage,
          'assumptions': assumptions, 'wall_s': round(wall, 2), 'violations': violations}
    with open(os.path.join(d, f'{pid}.json'), 'w', encoding='utf-8') as fh:
        json.dump(ev, fh, indent=1, ensure_ascii=True, default=str)


class Check:
    """One run of one property's check.  A property module fills it in:
         proof targets -> build; oracle failures (the property fails on the implementation for a
         concrete input); correspondence failures (model and implementation differ)."""

    def __init__(self, pid, tier_):
        self.pid = pid
        self.tier = tier_
        self.t0 = time.time()
        self.proof_broken = []      # list of dicts naming the obligation that no longer checks
        self.oracle_fail = []       # list of dicts: concrete failing inputs on the implementation
        self.corr_fail = []         # list of dicts: model/implementation disagreements
        self.known_hits = []        # (finding, case)
        self.coverage = {}
        self.assumptions = []
        self.obligations = []
        self.discharged = 0
        self.print_assumptions = []
        self.checker_cmd = ''
        self.notes = []

    # -- proof side
    def prove(self, prop_file, extra_targets=()):
        bad = gate()
        if bad:
            self.proof_broken.append({'obligation': 'axiom/admit gate', 'detail': bad})
        ok, msg = translate()
        if not ok:
            self.proof_broken.append({'obligation': 'translator (fail-closed)', 'detail': msg})
        mkproject()
        targets = [prop_file[:-2] + '.vo'] + list(extra_targets)
        self.checker_cmd = f'cd {COQ} && make -j{NPROC} ' + ' '.join(targets) + '   # coqc 8.16.1, full .vo build'
        ok, log = build(targets)
        cone, _ = dep_cone(prop_file)
        self.obligations = count_obligations(cone)
        if ok:
            self.discharged = len(self.obligations)
            # Print Assumptions output of the property file (re-run coqc on it to capture its messages)
            rc, out = run(['coqc', '-Q', '.', 'BS', '-w', '-notation-overridden,-deprecated-since-8.16', prop_file], 600, cwd=COQ)
            self.print_assumptions = assumptions_of(out)
        else:
            err = first_error(log)
            stmt = enclosing_statement(err['file'], err['line']) if err['file'] else None
            self.proof_broken.append({'obligation': stmt or 'build', 'file': err['file'], 'line': err['line'], 'detail': err['error']})
            done = [f for f in cone if os.path.exists(os.path.join(COQ, f[:-2] + '.vo'))
                    and os.path.getmtime(os.path.join(COQ, f[:-2] + '.vo')) >= os.path.getmtime(os.path.join(COQ, f))]
            self.discharged = len(count_obligations(done))
        return ok

    def model_ready(self, model_targets):
        """make sure the executable model compiles even when a proof file does not"""
        ok, log = build(model_targets)
        if not ok:
            err = first_error(log)
            self.proof_broken.append({'obligation': 'executable model does not compile', 'file': err['file'],
                                      'line': err['line'], 'detail': err['error']})
        return ok

    # -- verdict
    def finish(self, trusted_base, level='proof'):
        pid = self.pid
        if self.tier == 'thorough' and not self.proof_broken:
            # independent re-check of the compiled property file and everything it depends on; lists the axioms they rely on
            rc_chk, out_chk = run(['coqchk', '-silent', '-o', '-Q', '.', 'BS', f'BS.Props.{pid}'], 1500, cwd=COQ)
            m = re.search(r'CONTEXT SUMMARY.*', out_chk, re.S)
            self.coqchk = {'cmd': f'cd {COQ} && coqchk -silent -o -Q . BS BS.Props.{pid}', 'exit': rc_chk,
                             'summary': ' '.join((m.group(0) if m else out_chk[-600:]).split())[:900]}
            if rc_chk != 0:
                self.proof_broken.append({'obligation': 'coqchk re-check of Props/%s.vo' % pid, 'detail': out_chk[-600:]})
        findings = known_findings(pid)
        new_oracle = []
        for case in self.oracle_fail:
            hit = next((f for f in findings if match_finding(f, case)), None)
            if hit:
                self.known_hits.append((hit, case))
            else:
                new_oracle.append(case)
        lines = []
        rc = 0
        for f in {h['id']: h for h, _ in self.known_hits}.values():
            lines.append(f"KNOWN-FINDING: property={pid} {f['id']}: {f['what']}")
        if new_oracle:
            path = write_replay(pid, 'violation', {'property': pid, 'kind': 'property fails on the implementation',
                                                   'failing_inputs': new_oracle[:20], 'count': len(new_oracle),
                                                   'proof_broken': self.proof_broken, 'correspondence_failures': self.corr_fail[:10]})
            lines.append(f'VIOLATION property={pid} replay={path}')
            rc = 1
        elif self.proof_broken or self.corr_fail:
            path = write_replay(pid, 'unproved', {'property': pid,
                                                  'kind': 'a proof obligation or the model/implementation correspondence no longer checks; '
                                                          'no failing input was found on the implementation',
                                                  'proof_broken': self.proof_broken, 'correspondence_failures': self.corr_fail[:20],
                                                  'searched': self.coverage.get('evaluations')})
            lines.append(f'VIOLATION property={pid} replay={path} no-failing-input-found')
            rc = 1
        cov = dict(self.coverage)
        cov.setdefault('evaluations', 0)
        if getattr(self, 'coqchk', None):
            cov['coqchk'] = self.coqchk
        cov.update({'obligations': len(self.obligations), 'discharged': self.discharged, 'checker_cmd': self.checker_cmd,
                    'trusted_base': trusted_base, 'print_assumptions': self.print_assumptions,
                    'obligation_names': self.obligations[:400],
                    'proof_broken': self.proof_broken, 'correspondence_failures': len(self.corr_fail),
                    'known_finding_hits': len(self.known_hits), 'notes': self.notes})
        write_evidence(pid, self.tier, cov, time.time() - self.t0, len(new_oracle) + (1 if rc and not new_oracle else 0),
                       self.assumptions, level)
        for ln in lines:
            print(ln)
        if rc == 0:
            print(f'OK property={pid} tier={self.tier} obligations={len(self.obligations)} discharged={self.discharged} '
                  f'evaluations={cov.get("evaluations")} wall={time.time() - self.t0:.1f}s')
        return rc


def match_finding(finding, case):
    """a known finding matches a failing case through its decidable signature"""
    sig = finding.get('signature', {})
    kind = sig.get('kind')
    if kind == 'source_regex':
        src = case.get('source') or ''
        return all(re.search(p, src, re.S) for p in sig.get('all', [])) and case.get('class') in sig.get('classes', [case.get('class')])
    if kind == 'class_is':
        # the oracle class of the failing case is one of the listed classes (each such class is produced by ONE dedicated probe family)
        return case.get('class') in sig.get('classes', [])
    return False
