"""C09 - the statement budget is exact, complete and monotone.

proof         : coq/Props/C09.v (the head-of-statement test; count monotonicity; limited vs unlimited run in lock step)
direct oracle : for generated terminating and non-terminating programs (loops, recursion, arraySort callbacks, includes that
                define functions called by the includer) x every limit L in 1..N+2 (N <= 40), sampled L for larger N, and L = 0:
                (1) an independent reference interpreter with the same limit predicts result / error message / log / count;
                (2) metamorphic: L >= N and L = 0 behave exactly like the unlimited run; L < N aborts with the exact message,
                    statementCount = L + 1 and the log is a prefix of the unlimited log.
correspondence: the Coq interpreter model against the implementation on the same (program, L) pairs.
"""
from . import core, interp, refinterp, scriptgen

PID = 'C09'
CAP = 3000
TRUSTED = [
    'Coq 8.16.1 kernel + coqc; vm_compute only to run the model on cases (no native_compute)',
    'Print Assumptions of every C09 theorem: Closed under the global context (Section hypotheses on the library are visible premises)',
    'Model/Interp.v: hand transliteration of runtime.py validated by the correspondence; theorems quantify over the library under the '
    'stated premises (the library touches statementCount only through callbacks)',
    'harness/refinterp.py: independent reference semantics (jump level) used as the direct oracle; arraySort uses the host sort in both',
    'CPython recursion limit is not modelled (limits keep the call depth below 400)',
]

LIBS = ['systemLog', 'arrayNew', 'arrayLength', 'arrayGet', 'arrayPush', 'arraySet', 'objectNew', 'objectGet', 'objectSet', 'stringLength',
        'systemGlobalGet', 'systemGlobalSet', 'systemBoolean', 'systemType', 'systemCompare', 'mathMax', 'mathMin', 'arraySort', 'systemPartial',
        'dataFilter', 'dataCalculatedField', 'dataJoin', 'dataSort', 'dataTop', 'dataAggregate']


def templates(r):
    """hand-shaped families: (tag, main text, files)"""
    out = []
    for n in range(0, 5):
        out.append(('loop', f"i = 0\nwhile i < {n}:\n    systemLog('i=' + i)\n    i = i + 1\nendwhile\nsystemLog('done')\n", {}))
        out.append(('for', f"for v, k in arrayNew({', '.join(str(j) for j in range(n))}):\n    systemLog('v' + v + ' ' + k)\nendfor\nreturn {n}\n", {}))
    out.append(('forever', "i = 0\nwhile true:\n    i = i + 1\n    systemLog('t' + i)\nendwhile\n", {}))
    out.append(('forever', "function rr(n):\n    systemLog('r' + n)\n    return rr(n + 1)\nendfunction\nrr(0)\n", {}))
    out.append(('forever', "function aa(n):\n    return bb(n + 1)\nendfunction\nfunction bb(n):\n    systemLog('b' + n)\n    return aa(n)\nendfunction\naa(0)\n", {}))
    for n in (1, 2, 3, 5):
        out.append(('recursion', f"function fact(n):\n    if n <= 1:\n        return 1\n    endif\n    systemLog('f' + n)\n    return n * fact(n - 1)\n"
                                 f"endfunction\nsystemLog('r=' + fact({n}))\n", {}))
    # callbacks from the library: arraySort with a script compare function
    for arr in ([3, 1, 2], [5, 4, 3, 2, 1], [1, 2, 3, 4], [2, 9, 4, 7, 1, 8]):
        out.append(('callback', "function cmp(a, b):\n    systemLog('c ' + a + ' ' + b)\n    d = a - b\n    return d\nendfunction\n"
                                f"arr = arrayNew({', '.join(map(str, arr))})\nsorted = arraySort(arr, cmp)\nsystemLog('first ' + arrayGet(sorted, 0))\n", {}))
    out.append(('callback', "function cmp(a, b):\n    return b - a\nendfunction\nres = arraySort(arrayNew(1, 3, 2), cmp)\n", {}))
    # includes: the included file defines functions that the includer calls afterwards, and runs loops itself
    lib = "function lf(n):\n    j = 0\n    while j < n:\n        systemLog('lf' + j)\n        j = j + 1\n    endwhile\n    return j\nendfunction\nsystemLog('lib loaded')\n"
    out.append(('include', "include 'lib.bare'\nsystemLog('a')\nx = lf(3)\nsystemLog('x=' + x)\ny = lf(2)\nsystemLog('end')\n", {'lib.bare': lib}))
    out.append(('include', "function cb(v):\n    systemLog('cb' + v)\n    return v + 1\nendfunction\ninclude 'use.bare'\nsystemLog('z=' + z)\n",
                {'use.bare': "z = cb(1)\nz = cb(z)\nfor q in arrayNew(1, 2):\n    z = cb(z)\nendfor\n"}))
    out.append(('include', "include 'a.bare'\nsystemLog('main ' + fa(2))\n",
                {'a.bare': "include 'b.bare'\nfunction fa(n):\n    return fb(n) + fb(n + 1)\nendfunction\nsystemLog('a')\n",
                 'b.bare': "function fb(n):\n    k = 0\n    for e in arrayNew(1, 2, 3):\n        k = k + e * n\n    endfor\n    return k\nendfunction\nsystemLog('b')\n"}))
    out.append(('include', "i = 0\nwhile i < 3:\n    include 'tick.bare'\n    i = i + 1\nendwhile\nsystemLog('t=' + t)\n",
                {'tick.bare': "t = if(t, t, 0) + 1\nsystemLog('tick')\nreturn\nsystemLog('never')\n"}))
    # SEVERAL include lines in a row (the parser folds them into ONE include statement): the statements of every one of the files count
    out.append(('include', "include 'one.bare'\ninclude 'two.bare'\ninclude 'three.bare'\nsystemLog('sum=' + (n1 + n2 + n3))\nsystemLog('end')\n",
                {'one.bare': "n1 = 0\nwhile n1 < 3:\n    n1 = n1 + 1\nendwhile\nsystemLog('one')\n",
                 'two.bare': "n2 = 5\nsystemLog('two')\nn2 = n2 + n1\n",
                 'three.bare': "n3 = 1\nsystemLog('three')\n"}))
    out.append(('include', "function body():\n    include 'one.bare'\n    include 'two.bare'\n    return 1\nendfunction\nbody()\nsystemLog('mid')\nbody()\nsystemLog('end')\n",
                {'one.bare': "systemLog('one')\nk = 1\nk = k + 1\n", 'two.bare': "systemLog('two')\n"}))
    # closures across an include boundary (an include runs under a COPY of the options): a partial created inside the included file and
    # called by the includer, and the converse - the statements of the bound function count against the one budget either way
    fn3 = "function work(tag, n):\n    k = 0\n    while k < n:\n        systemLog(tag + k)\n        k = k + 1\n    endwhile\n    return k\nendfunction\n"
    out.append(('include', fn3 + "include 'mk.bare'\nsystemLog('a')\nx = pw(2)\nsystemLog('x=' + x)\ny = pw(3)\nsystemLog('end')\n",
                {'mk.bare': "pw = systemPartial(work, 'in')\nsystemLog('made')\n"}))
    out.append(('include', fn3 + "pw = systemPartial(work, 'out')\ninclude 'use.bare'\nsystemLog('z=' + z)\nz = pw(2)\nsystemLog('end')\n",
                {'use.bare': "z = pw(2)\nsystemLog('mid')\nz = z + pw(1)\n"}))
    out.append(('include', fn3 + "include 'mk.bare'\nsorted = arraySort(arrayNew(2, 1, 3), cmpw)\nsystemLog('end')\n",
                {'mk.bare': "function cmp3(tag, a, b):\n    systemLog(tag + a + b)\n    return a - b\nendfunction\ncmpw = systemPartial(cmp3, 'c')\n"}))
    # callbacks from the DATA helpers: the row expression calls a script function; with a variables object the helper evaluates under a
    # COPY of the options (the statements started there must count against the same budget).  Decided by the metamorphic clauses
    # (the reference interpreter and the Coq model do not cover data.py).
    fn = "function ff(v):\n    systemLog('ff ' + v)\n    w = v * 2\n    return w\nendfunction\n" \
         "data = arrayNew(objectNew('a', 1), objectNew('a', 2), objectNew('a', 3))\n"
    for vars_ in ("objectNew('vv', 2)", 'null'):
        for tail in ("systemLog('end')\n", ''):
            out.append(('data', fn + f"r1 = dataFilter(data, 'ff(a) > vv', {vars_})\n" + tail, {}))
            out.append(('data', fn + f"systemLog('go')\nr2 = dataCalculatedField(data, 'b', 'ff(a) + 1', {vars_})\n" + tail, {}))
            out.append(('data', fn + f"right = arrayNew(objectNew('a', 2, 'c', 5), objectNew('a', 4, 'c', 6))\n"
                                     f"r3 = dataJoin(data, right, 'ff(a)', 'a', true, {vars_})\n" + tail, {}))
            out.append(('data', fn + f"r1 = dataFilter(data, 'ff(a) > 2', {vars_})\nr2 = dataCalculatedField(r1, 'b', 'ff(a)', {vars_})\n" + tail, {}))
    return out


def limits_for(n, r, tier):
    if n is None:           # does not terminate under the cap
        base = list(range(1, 25)) + [r.randint(25, 100) for _ in range(4)]
        return base if tier == 'thorough' else base[:12] + base[-2:]
    if n <= 40:
        return [0] + list(range(1, n + 3))
    picks = {0, 1, 2, n - 1, n, n + 1, n + 2}
    while len(picks) < (14 if tier == 'quick' else 40):
        picks.add(r.randint(3, n))
    return sorted(picks)


def ref_run(model, file_models, limit):
    g = {name: refinterp.LibFn(name) for name in LIBS}
    g.update({'g0': [1.0, 2.0, 'x'], 'g1': 2.0, 'g2': 'ab', 'depth': 0.0})
    ref = refinterp.Ref(g, limit, 'jump')
    ref.files = file_models
    out = {}
    try:
        out['res'] = ref.exec_jump(model, None)
    except refinterp.RtError as exc:
        out['rt'] = str(exc)
    out['log'] = list(ref.log)
    out['count'] = ref.count
    return out


def run(tier):
    from .c08 import same, tree_plain
    chk = core.Check(PID, tier)
    chk.assumptions = ['programs keep the call depth below 400 (CPython recursion limit is out of scope)',
                       'the aborted statement is counted: statementCount = L + 1 after an abort']
    proof_ok = chk.prove('Props/C09.v', extra_targets=['Model/Run.vo'])
    model_ok = proof_ok or chk.model_ready(['Model/Run.vo'])
    r = core.rng('c09')

    programs = templates(r)
    n_rand = 60 if tier == 'quick' else 500
    for _ in range(n_rand):
        prog = scriptgen.gen_program(r, max_depth=3)
        programs.append(('random', scriptgen.program_text(prog), {}))
    gl = {'g0': None, 'g1': interp.vflt(2.0), 'g2': ['str', 'ab'], 'depth': interp.vflt(0.0)}

    def mk(text, files, limit, debug=False):
        pool = interp.Pool()
        g = dict(gl)
        g['g0'] = pool.arr([interp.vflt(1), interp.vflt(2), ['str', 'x']])
        c = {'text': text, 'files': files, 'globals': g, 'max': limit, 'want_model': True, 'rerun_same_options': True}
        if debug:
            c['debug'] = True
        return c

    # the same hand-shaped programs in DEBUG mode (failed calls are reported through logFn): the metamorphic clauses only - under a smaller
    # limit the log, debug lines included, is still a prefix of the unlimited run's log
    programs += [(tag + '+debug', text + "zq = arrayLength(5)\nsystemLog('tail')\n", files) for tag, text, files in programs
                 if tag in ('recursion', 'callback', 'include', 'loop')]

    # pass 1: unlimited (capped) runs give N
    # (non-terminating recursion is only ever run under small limits: CPython's recursion limit is out of scope)
    base = core.run_impl('run_script', [mk(t, f, 120 if tag == 'forever' else CAP, tag.endswith('+debug')) for tag, t, f in programs])
    cases, meta = [], []
    for pi, ((tag, text, files), b) in enumerate(zip(programs, base)):
        if 'model' not in b:
            continue
        n = None if 'rt' in b and b['rt'].startswith('Exceeded maximum') else b['count']
        for lim in limits_for(n, r, tier):
            cases.append(mk(text, files, lim if lim > 0 else 0, tag.endswith('+debug')))
            meta.append((pi, lim, n))
    impl = core.run_impl('run_script', cases)

    dist, nontrivial = {}, set()
    skipped = 0
    for (pi, lim, n), res in zip(meta, impl):
        tag, text, files = programs[pi]
        b = base[pi]
        dist[tag] = dist.get(tag, 0) + 1
        info = {'source': text, 'files': files, 'limit': lim, 'unlimited_count': n}
        if 'host' in res:
            chk.oracle_fail.append({'class': 'host-exception', **info, 'got': res})
            continue
        # (0) the counter is reset at execute_script entry: a second run with the same options object behaves like the first
        sec = res.get('second')
        if sec is not None and any(sec.get(k) != res.get(k) for k in ('res', 'rt', 'log', 'count')):
            chk.oracle_fail.append({'class': 'second-run-with-the-same-options-differs', **info,
                                    'first': {k: res.get(k) for k in ('res', 'rt', 'log', 'count')}, 'second': sec})
            continue
        # (2) metamorphic clauses against the unlimited run
        if n is not None and (lim == 0 or lim >= n):
            if any(res.get(k) != b.get(k) for k in ('res', 'rt', 'log', 'globals', 'count')):
                chk.oracle_fail.append({'class': 'limit-at-or-above-N-changes-behaviour', **info,
                                        'got': {k: res.get(k) for k in ('res', 'rt', 'log', 'count')},
                                        'unlimited': {k: b.get(k) for k in ('res', 'rt', 'log', 'count')}})
                continue
        else:
            msg = f'Exceeded maximum script statements ({lim})'
            if res.get('rt') != msg:
                chk.oracle_fail.append({'class': 'not-aborted-when-statement-L+1-would-start', **info,
                                        'got': {k: res.get(k) for k in ('res', 'rt', 'log', 'count')}})
                continue
            if res['count'] != lim + 1:
                chk.oracle_fail.append({'class': 'more-than-L-statements-started', **info, 'got_count': res['count']})
                continue
            if b['log'][:len(res['log'])] != res['log']:
                chk.oracle_fail.append({'class': 'effects-not-a-prefix-of-the-unlimited-run', **info, 'got_log': res['log'], 'unlimited_log': b['log']})
                continue
        if tag.endswith('+debug'):
            if n is None or 0 < lim < n:
                nontrivial.add((pi, lim))
            continue            # (the reference interpreter does not write the debug lines)
        # (1) the reference with the same limit
        try:
            exp = ref_run(b['model'], b.get('file_models', {}), lim)
        except (refinterp.Unsupported, RecursionError):
            skipped += 1
            continue
        ok = res['log'] == exp['log'] and res['count'] == exp['count']
        if 'rt' in exp:
            ok = ok and res.get('rt') == exp['rt']
        else:
            ok = ok and 'res' in res and same(tree_plain(res['res']), exp['res'])
        if not ok:
            chk.oracle_fail.append({'class': 'differs-from-reference-with-the-same-limit', **info, 'expected': {k: repr(v) for k, v in exp.items()},
                                    'got': {k: res.get(k) for k in ('res', 'rt', 'log', 'count')}})
        if n is None or 0 < lim < n:
            nontrivial.add((pi, lim))

    # ---- correspondence
    corr_n = declined = 0
    if model_ok:
        idxs = [i for i, (pi, lim, n) in enumerate(meta) if not programs[pi][2] and not programs[pi][0].endswith('+debug')]        # (includes need a fetch table: own term below)
        inc = [i for i, (pi, lim, n) in enumerate(meta) if programs[pi][2] and not programs[pi][0].endswith('+debug')]
        budget = 300 if tier == 'quick' else 4000
        if len(idxs) > budget:
            idxs = sorted(r.sample(idxs, budget))
        terms, used = [], []
        for i in idxs + inc:
            pi, lim, n = meta[i]
            try:
                terms.append(interp.run_term(cases[i], impl[i], base[pi]['model'], fuel=CAP * 4, files=programs[pi][2]))
                used.append(i)
            except interp.Unencodable:
                continue
        codes, errors = core.coq_codes('c09', interp.IMPORTS, terms, shard=25)
        corr_n = len(used)
        for k, log in errors:
            chk.corr_fail.append({'class': 'case-file-did-not-evaluate', 'shard': k, 'log': log[-800:]})
        declined = sum(1 for c in codes if c == 2)
        for j, c in enumerate(codes):
            if c in (0, 3) and len(chk.corr_fail) < 15:
                pi, lim, n = meta[used[j]]
                chk.corr_fail.append({'class': 'model-differs' if c == 0 else 'model-out-of-fuel', 'source': programs[pi][1], 'files': programs[pi][2],
                                      'limit': lim, 'impl': {k: impl[used[j]].get(k) for k in ('res', 'rt', 'log', 'count')}})

    chk.coverage = {
        'evaluations': len(cases),
        'distinct_nontrivial': len(nontrivial),
        'rule': 'programs = hand-shaped families (loops, for, non-terminating loops and recursion, recursion, arraySort callbacks, includes whose '
                'functions the includer calls, include inside a loop with return) + random structured programs; for each, N = statements of the '
                'unlimited run (cap %d); limits = 0 and every L in 1..N+2 when N <= 40, sampled otherwise; non-trivial = (program, L) with 0 < L < N '
                'or a non-terminating program, distinct pairs' % CAP,
        'programs': len(programs), 'distribution': dist, 'reference_skipped': skipped,
        'correspondence_cases': corr_n, 'model_declined': declined,
        'samples': [{'source': programs[meta[i][0]][1], 'limit': meta[i][1], 'N': meta[i][2],
                     'impl': {k: impl[i].get(k) for k in ('res', 'rt', 'count')}} for i in (3, len(cases) // 2, len(cases) - 1) if i < len(cases)],
    }
    return chk.finish(TRUSTED)
