"""C02 - expression text parses to the tree the precedence rules dictate.

proof        : coq/Props/C02.v (model = Model/ExprParser.v over REGENERATED regexes + BINARY_REORDER)
direct oracle: token lists -> an independent precedence-climbing reference over TOKENS decides
               accept/reject and the expected tree; the implementation must agree on the text
               obtained by joining the tokens (exhaustive operator chains up to length 4, random trees,
               token soup).
correspondence: implementation vs the Coq model on the same texts plus raw character fuzz.
"""
import itertools

from . import core
from .core import cstr, cflt, clist, cnat  # noqa: F401

PID = 'C02'
OPS = ['**', '*', '/', '%', '+', '-', '<=', '<', '>=', '>', '==', '!=', '&&', '||']
LEVEL = {'**': 7, '*': 6, '/': 6, '%': 6, '+': 5, '-': 5, '<=': 4, '<': 4, '>=': 4, '>': 4, '==': 3, '!=': 3, '&&': 2, '||': 1}
TRUSTED = [
    'Coq 8.16.1 kernel + coqc; vm_compute for the finite table obligations and for running the model (no native_compute)',
    'Print Assumptions of every C02 theorem: Closed under the global context (no axioms)',
    'tools/translate.py: copies BINARY_REORDER and every re.compile pattern of parser.py (parsed by CPython\'s own re._parser) into coq/Gen',
    'Model/Regex.v: hand-written backtracking matcher assumed to implement CPython re semantics for the constructs used (validated by the correspondence)',
    'Model/ExprParser.v: hand transliteration of parse_expression/_parse_binary_expression/_parse_unary_expression (validated by the correspondence)',
    'Model/Num.v py_float: model of CPython float(str) (correctly rounded decimal->binary64 by SpecFloat division)',
    'harness/c02.py reference parser over token lists (precedence climbing) as the direct oracle',
]


# ------------------------------------------------------------------ token-level reference (the spec)
class Reject(Exception):
    pass


def ref_parse(tokens):
    """tokens: list of (kind, text); kinds: id num str br op un ( ) ,  -> canonical tree or Reject"""
    pos = 0

    def peek():
        return tokens[pos] if pos < len(tokens) else (None, None)

    def unary():
        nonlocal pos
        k, t = peek()
        if k == '(':
            pos += 1
            e = expr(0)
            if peek()[0] != ')':
                raise Reject()
            pos += 1
            return ['group', e]
        if (k == 'op' and t == '-') or k == 'un':
            pos += 1
            return ['un', t, unary()]
        if k == 'id':
            pos += 1
            if peek()[0] == '(' and len(t) >= 2:
                pos += 1
                args = []
                while True:
                    if peek()[0] == ')':
                        pos += 1
                        break
                    if args:
                        if peek()[0] != ',':
                            raise Reject()
                        pos += 1
                    args.append(expr(0))
                return ['call', t, args]
            return ['var', t]
        if k == 'num':
            pos += 1
            return ['num', float(t).hex()]
        if k == 'str':
            pos += 1
            return ['str', t[1]]
        if k == 'br':
            pos += 1
            return ['var', t[1]]
        raise Reject()

    def expr(min_level):
        nonlocal pos
        left = unary()
        while True:
            k, t = peek()
            if k != 'op' or LEVEL[t] < min_level:
                return left
            pos += 1
            right = expr(LEVEL[t] + 1)      # left associative: the right operand binds strictly tighter
            left = ['bin', t, left, right]

    e = expr(0)
    if pos != len(tokens):
        raise Reject()
    return e


def tok_text(tok):
    k, t = tok
    if k in ('str', 'br'):
        return t[0]
    return t


def join(tokens, r=None):
    """join tokens with whitespace; with an rng, vary the whitespace where gluing is unambiguous"""
    out = []
    for i, tok in enumerate(tokens):
        s = tok_text(tok)
        if i:
            prev = tokens[i - 1]
            glue_ok = prev[0] == '(' or tok[0] in (')', ',') or prev[0] == ','
            if r is None:
                out.append(' ')
            else:
                c = r.random()
                if glue_ok and c < 0.5:
                    pass
                elif c < 0.8:
                    out.append(' ')
                elif c < 0.9:
                    out.append('  ')
                else:
                    out.append(' \t ')
        out.append(s)
    return ''.join(out)


def wp_ok(t):
    """the declarative spec on a canonical tree (mirrors WP of Proofs/C02.v)"""
    k = t[0]
    if k == 'bin':
        _, op, l, r = t
        if op not in LEVEL:
            return False
        if l[0] == 'bin' and LEVEL.get(l[1], 0) < LEVEL[op]:
            return False
        if r[0] == 'bin' and LEVEL.get(r[1], 0) <= LEVEL[op]:
            return False
        return wp_ok(l) and wp_ok(r)
    if k == 'un':
        return t[2][0] != 'bin' and wp_ok(t[2])
    if k == 'group':
        return wp_ok(t[1])
    if k == 'call':
        return all(wp_ok(a) for a in t[2])
    return True


MUST_REJECT = ['foo(1,)', 'foo(a, b, )', 'bar(foo(1,), 2)', 'foo(,)', 'foo(, 1)', 'foo(1,,2)', 'foo(1 2)', '(a,)', '1e5', 'a * 1.5e2', 'f0(1e5, 2)', '2E+3', '1e', '1e+', '.5', '1.2.3', '1_000', '0x10', 'a + 3e7 * b']

PLUS_SIGNED = [
    ([('num', '+5')], '+5'),
    ([('num', '1'), ('op', '-'), ('num', '+2')], '1 - +2'),
    ([('num', '1'), ('op', '+'), ('num', '+2')], '1++2'),
    ([('num', '2'), ('op', '**'), ('num', '+3'), ('op', '**'), ('num', '2')], '2 ** +3 ** 2'),
    ([('id', 'fn'), ('(', '('), ('num', '+1'), (',', ','), ('num', '+2.5'), (')', ')')], 'fn(+1, +2.5)'),
    ([('un', '-'), ('num', '+5')], '-+5'),
    ([('id', 'a'), ('op', '*'), ('num', '+7e+2')], 'a*+7e+2'),
    ([('(', '('), ('num', '+0'), (')', ')'), ('op', '<='), ('num', '+1e-3')], '(+0)<=+1e-3'),
    # a literal beyond the double range is a number (infinity), not an error
    ([('num', '1e+309')], '1e+309'),
    ([('id', 'a'), ('op', '||'), ('id', 'b'), ('op', '<'), ('num', '1e+999'), ('op', '*'), ('num', '2')], 'a || b < 1e+999 * 2'),
    ([('id', 'mathMin'), ('(', '('), ('id', 'best'), (',', ','), ('num', '17e+400'), (')', ')')], 'mathMin(best, 17e+400)'),
    # a string literal whose body ends in a lone backslash and that has no later quote of its kind: the closing quote is that last quote
    ([('str', ("'C:\\tmp\\'", 'C:\\tmp\\'))], "'C:\\tmp\\'"),
    ([('id', 'stringSplit'), ('(', '('), ('id', 'p'), (',', ','), ('str', ("'\\'", '\\')), (')', ')')], "stringSplit(p, '\\')"),
    ([('id', 'a'), ('op', '+'), ('id', 'b'), ('op', '*'), ('str', ('"x\\"', 'x\\'))], 'a + b * "x\\"'),
    ([('junk', '+'), ('num', '5')], '+ 5'),
    ([('junk', '+'), ('id', 'a')], '+a'),
    ([('junk', '+'), ('(', '('), ('num', '1'), (')', ')')], '+(1)'),
]

# ------------------------------------------------------------------ generators
def str_tok(r):
    q = r.choice(["'", '"'])
    other = '"' if q == "'" else "'"
    # (a backslash before the OTHER quote or before a letter is kept as it is: only \\\\ and the literal's own quote are escapes)
    pieces = ['a', 'b', ' ', '+', '(', ')', '\\' + q, '\\\\', other, ',', '1', '\\' + other, '\\n']
    body = ''.join(r.choice(pieces) for _ in range(r.randint(0, 4)))
    return ('str', (q + body + q, _unescape(body, q)))


def _unescape(body, q):
    out = []
    i = 0
    while i < len(body):
        if body[i] == '\\' and i + 1 < len(body) and body[i + 1] in ('\\', q):
            out.append(body[i + 1])
            i += 2
        else:
            out.append(body[i])
            i += 1
    return ''.join(out)


IDS = ['a', 'b', 'x1', '_y', 'true', 'null', 'abc', 'q']
FNS = ['fn', 'max', 'if', 'arrayGet', 'ab']
NUMS = ['0', '1', '2.5', '10', '3.', '7e+2', '1e-3', '12.25e+1']


def atom_tokens(r, depth):
    c = r.random()
    if depth > 0 and c < 0.15:
        return [('(', '(')] + chain_tokens(r, depth - 1) + [(')', ')')]
    if depth > 0 and c < 0.30:
        toks = [('id', r.choice(FNS)), ('(', '(')]
        for i in range(r.randint(0, 3)):
            if i:
                toks.append((',', ','))
            toks += chain_tokens(r, depth - 1)
        return toks + [(')', ')')]
    if c < 0.42:
        return [('un', '!') if r.random() < 0.5 else ('op', '-')] + atom_tokens(r, depth)
    if c < 0.60:
        return [('num', r.choice(NUMS))]
    if c < 0.70:
        return [str_tok(r)]
    if c < 0.76:
        name = r.choice(['a b', 'x', 'a\\]b', ' p '])
        return [('br', ('[' + name + ']', name.replace('\\]', ']').strip() if False else _br_val(name)))]
    return [('id', r.choice(IDS))]


def _br_val(name):
    # regex: \[\s*((?:\\\]|[^\]])+)\s*\]  - leading spaces skipped by \s*, trailing ones stay in the (greedy) group
    v = name.lstrip(' ')
    if v == '':
        v = name  # not generated
    return _unescape(v, ']')


def chain_tokens(r, depth, nops=None):
    n = r.choice([0, 1, 1, 2, 2, 3, 4, 5]) if nops is None else nops
    toks = atom_tokens(r, depth)
    for _ in range(n):
        toks.append(('op', r.choice(OPS)))
        toks += atom_tokens(r, depth)
    return toks


def soup_tokens(r):
    """mostly-valid token lists with one mutation, and pure soup"""
    if r.random() < 0.7:
        toks = chain_tokens(r, 2)
        m = r.random()
        i = r.randrange(len(toks) + 1)
        extra = r.choice([('op', r.choice(OPS)), ('(', '('), (')', ')'), (',', ','), ('id', 'zz'), ('num', '1'), ('un', '!'),
                          ('junk', '='), ('junk', '&'), ('junk', '|'), ('junk', '$'), ('junk', ']')])
        if m < 0.4 and toks:
            del toks[min(i, len(toks) - 1)]
        elif m < 0.8:
            toks.insert(i, extra)
        elif len(toks) >= 2:
            j = r.randrange(len(toks) - 1)
            toks[j], toks[j + 1] = toks[j + 1], toks[j]
        return toks
    vocab = [('id', 'a'), ('id', 'fn'), ('num', '1'), ('op', '+'), ('op', '*'), ('op', '-'), ('op', '**'), ('op', '<='), ('un', '!'),
             ('(', '('), (')', ')'), (',', ','), ('junk', '='), ('op', '||')]
    return [r.choice(vocab) for _ in range(r.randint(1, 7))]


def raw_fuzz(r):
    alphabet = list("ab1 .()+-*/%<>=!&|,'\"\\[]_e\t") + ['\n', '\u00e9', '\u0661', '\u00a0', '\u2003']
    return ''.join(r.choice(alphabet) for _ in range(r.randint(0, 14)))


# ------------------------------------------------------------------ model side
def expr_coq(t):
    k = t[0]
    if k == 'num':
        return f'(ENum (NFlt {cflt(float.fromhex(t[1]))}))'
    if k == 'int':
        return f'(ENum (NInt ({int(t[1])})%Z))'
    if k == 'str':
        return f'(EStr {cstr(t[1])})'
    if k == 'var':
        return f'(EVar {cstr(t[1])})'
    if k == 'call':
        return f'(ECall {cstr(t[1])} {clist([expr_coq(a) for a in t[2]])})'
    if k == 'bin':
        return f'(EBin {cstr(t[1])} {expr_coq(t[2])} {expr_coq(t[3])})'
    if k == 'un':
        return f'(EUn {cstr(t[1])} {expr_coq(t[2])})'
    if k == 'group':
        return f'(EGroup {expr_coq(t[1])})'
    raise ValueError(k)


def result_coq(res):
    if 'ok' in res:
        return f'(EOk {expr_coq(res["ok"])})'
    if 'err' in res:
        return f'(EErr {cstr(res["err"][0])} {cnat(res["err"][1])})'
    return f'(EHost {cstr(res["host"])})'


# ------------------------------------------------------------------ the check
def run(tier):
    chk = core.Check(PID, tier)
    chk.assumptions = ['CPython re/float semantics as modelled in Model/Regex.v and Model/Num.v',
                       'recursion limit of the host interpreter is not modelled (expressions stay below 200 tokens)']
    proof_ok = chk.prove('Props/C02.v')
    model_ok = proof_ok or chk.model_ready(['Model/ExprParser.vo'])

    r = core.rng('c02')
    cases = []      # (tokens or None, text, tag)
    # corpus
    for text in ['a + b * c', 'a && b < c * d + e', 'a + b * c ** d ** e', 'a = b', 'a ! b', '-a ** b', '(a + b) * c', 'fn(a ! b)',
                 'a - -1', 'a + +1', '1e5', 'f(1)', 'ab (c)', 'a (c)', '[a b] + 1', "'x\\'y' + \"z\\\"w\""]:
        cases.append((None, text, 'corpus'))
    # ill-formed number spellings: an exponent needs its sign (the literal grammar is  digits[.digits][e(+|-)digits])
    for text in MUST_REJECT:
        cases.append((None, text, 'must-reject'))
    # a number literal may carry an explicit plus sign at an operand position (`+` is not a unary operator: `+ 5` and `+a` are errors)
    for toks, text in PLUS_SIGNED:
        cases.append((toks, text, 'corpus'))
    # exhaustive operator chains (identifier operands)
    maxlen = 4
    names = ['a', 'b', 'c', 'd', 'e']
    for n in range(1, maxlen + 1):
        for ops in itertools.product(OPS, repeat=n):
            toks = [('id', names[0])]
            for i, op in enumerate(ops):
                toks += [('op', op), ('id', names[i + 1])]
            cases.append((toks, join(toks), f'chain{n}'))
    # chains with parenthesised / unary / call operands
    n_var = 3000 if tier == 'quick' else 40000
    for _ in range(n_var):
        n = r.randint(1, 4)
        cases.append((lambda t: (t, join(t, r), 'chainx'))(chain_tokens(r, 1, n)))
    # random trees to depth 8-ish (depth counts nested groups/calls)
    n_rand = 3000 if tier == 'quick' else 60000
    for _ in range(n_rand):
        t = chain_tokens(r, r.choice([1, 2, 2, 3]))
        if len(t) <= 200:
            cases.append((t, join(t, r), 'random'))
    # malformed stream
    n_soup = 3000 if tier == 'quick' else 50000
    for _ in range(n_soup):
        t = soup_tokens(r)
        cases.append((t, join(t, r), 'soup'))
    n_fuzz = 1500 if tier == 'quick' else 30000
    for _ in range(n_fuzz):
        cases.append((None, raw_fuzz(r), 'fuzz'))

    texts = [c[1] for c in cases]
    impl = core.run_impl('parse_expr', texts)

    # ---- direct oracle
    dist = {}
    n_accept = n_reject = 0
    seen_nontrivial = set()
    for (toks, text, tag), res in zip(cases, impl):
        dist[tag] = dist.get(tag, 0) + 1
        if tag == 'must-reject' and 'err' not in res:
            chk.oracle_fail.append({'class': 'ill-formed-text-accepted', 'source': text, 'got': res})
        if 'again' in res and len(chk.oracle_fail) < 30:
            chk.oracle_fail.append({'class': 'parse-result-depends-on-earlier-calls', 'source': text,
                                    'first': {k: v for k, v in res.items() if k != 'again'}, 'second_pass': res['again']})
        if 'host' in res:
            chk.oracle_fail.append({'class': 'host-exception', 'source': text, 'got': res})
            continue
        if 'ok' in res:
            n_accept += 1
            if not wp_ok(res['ok']):
                chk.oracle_fail.append({'class': 'tree-not-well-precedenced', 'source': text, 'got': res['ok']})
                continue
        else:
            n_reject += 1
        if toks is None or any(k == 'junk' for k, _ in toks) and False:
            continue
        try:
            exp = ref_parse(toks)
        except Reject:
            exp = None
        except RecursionError:
            continue
        if exp is None:
            if 'ok' in res:
                chk.oracle_fail.append({'class': 'ill-formed-text-accepted', 'source': text, 'tokens': [tok_text(t) for t in toks],
                                        'got': res['ok']})
        else:
            if 'ok' not in res:
                chk.oracle_fail.append({'class': 'well-formed-text-rejected', 'source': text, 'expected': exp, 'got': res})
            elif res['ok'] != exp:
                chk.oracle_fail.append({'class': 'wrong-tree', 'source': text, 'expected': exp, 'got': res['ok']})
            if sum(1 for k, _ in toks if k == 'op') >= 2:
                seen_nontrivial.add(text)

    # ---- correspondence with the Coq model (a subset: all short chains, samples of the rest)
    corr_n = 0
    if model_ok:
        pick = []
        budget = {'corpus': 10**9, 'chain1': 10**9, 'chain2': 10**9, 'chain3': 600, 'chain4': 900, 'chainx': 900, 'random': 900,
                  'soup': 1200, 'fuzz': 1200}
        if tier == 'thorough':
            budget = {k: v * 8 for k, v in budget.items()}
        by_tag = {}
        for i, c in enumerate(cases):
            by_tag.setdefault(c[2], []).append(i)
        for tag, idxs in by_tag.items():
            if len(idxs) > budget.get(tag, 500):
                idxs = sorted(r.sample(idxs, budget.get(tag, 500)))
            pick += idxs
        # cases that the oracle flagged always go to the model too
        terms = [f'eres_eqb (parse_expression {cstr(texts[i])}) {result_coq(impl[i])}' for i in pick]
        bad, errors = core.coq_bools('c02', 'Model.Base Model.Num Model.ExprParser', terms)
        corr_n = len(pick)
        for k, log in errors:
            chk.corr_fail.append({'class': 'case-file-did-not-evaluate', 'shard': k, 'log': log[-800:]})
        for b in bad[:20]:
            i = pick[b]
            shown = core.coq_show('c02', 'Model.Base Model.ExprParser', f'parse_expression {cstr(texts[i])}')
            chk.corr_fail.append({'class': 'model-differs', 'source': texts[i], 'impl': impl[i], 'model': shown[-1500:]})
        if len(bad) > 20:
            chk.corr_fail.append({'class': 'model-differs', 'more': len(bad) - 20})

    samples = [{'text': cases[i][1], 'impl': impl[i]} for i in (0, 5, 300, 3500, len(cases) - 2000, len(cases) - 1) if i < len(cases)]
    chk.coverage = {
        'evaluations': len(cases),
        'distinct_nontrivial': len(seen_nontrivial),
        'rule': '+ round 7: plus-signed literals at operand positions with expected trees; token lists joined with varying whitespace; exhaustive 14^k operator chains k<=4 over identifier operands, chains with '
                'group/unary/call/number/string/bracket operands, random nested trees, mutated/soup token lists (accept/reject) and raw '
                'character fuzz; non-trivial = accepted by the reference with >= 2 binary operators, distinct by text',
        'exhaustive': True,
        'exhaustive_part': 'all operator chains of length 1..4 (41370)',
        'distribution': dist, 'impl_accepted': n_accept, 'impl_rejected': n_reject,
        'correspondence_cases': corr_n,
        'samples': samples,
    }
    return chk.finish(TRUSTED)
