"""C07 - lowered code is well formed: schema-valid, every reserved jump has exactly one label in its scope,
every reserved label is targeted.

proof        : coq/Props/C07.v  (Model/Script.v parse_script = classify ; Model/Lower.kstep, invariant over kstep
               for arbitrary line-kind sequences and both scopes, injectivity of the generated label names)
direct oracle: on the IMPLEMENTATION's parse_script output, independent of the Coq model: statement shape,
               validate_script, a static per-scope label check written here, lint_script label warnings,
               execution with a small maxStatements (no "Unknown jump label").  Generators: shipped .bare files,
               EXHAUSTIVE nesting shapes (depth 3 quick / 4 thorough; global, inside a function), several functions
               interleaved with global control flow (exhaustive over depth<=2 shapes x contexts), random structured
               programs, random line-kind soup (arbitrary sequences incl. user labels/jumps), mutated programs.
correspondence: Script.parse_script (Coq, vm_compute) = parse_script (implementation) on the same texts, statement
               lists compared structurally; and on the model's output script_wfb / script_schema evaluated in Coq.
"""
import glob
import os
import re

from . import core
from . import scriptgen as sg

PID = 'C07'
RES = '__bareScript'
TRUSTED = [
    'Coq 8.16.1 kernel + coqc; vm_compute for running the model (no native_compute)',
    'Print Assumptions of every C07 theorem: Closed under the global context (no axioms)',
    'tools/translate.py: every re.compile pattern of parser.py regenerated into coq/Gen/Regexes.v on each run',
    'Model/Regex.v (matcher) + Model/ExprParser.v + Model/Script.v: hand transliteration of parse_script, validated by the '
    'correspondence on every run; Model/Lower.v classify/kstep is PROVED equal to Script.pstep (C07_step_factors)',
    'Model/Lower.v: defs/refs/scope_wfb (the static check), find_first_label (runtime.py label lookup), lint_labels (model.py '
    'label lint) are small transliterations; script_schema is a hand reading of BARE_SCRIPT_TYPES (model.py:14-219)',
    'harness/c07.py static_check: the independent Python reference for the per-scope label property',
]

# ------------------------------------------------------------------ shapes (richer than scriptgen.shapes: branch terminators)
IFS = [('if', 0), ('ifelse', 0), ('ifelse', 1), ('ifelif', 0), ('ifelif', 1), ('ifelifelse', 0), ('ifelifelse', 1), ('ifelifelse', 2)]
LOOPS = ['while', 'for', 'fori']
LOOPFLAGS = ['', 'b', 'c', 'bc']       # guarded `if k > 1: break endif` / `if k == 1: continue endif` at the top of the loop body
TERMS = ['', 'B', 'C']                 # inside a loop: every non-child branch of an if-family construct ends with break / continue


def level_choices(in_loop):
    out = []
    for cons, pos in IFS:
        for t in (TERMS if (in_loop and cons != 'if') else ['']):
            out.append((cons, pos, t))
    for cons in LOOPS:
        for f in LOOPFLAGS:
            out.append((cons, 0, f))
    return out


def chains(depth, in_loop=False):
    """all chains of exactly `depth` levels"""
    if depth == 0:
        yield []
        return
    for lv in level_choices(in_loop):
        inner = in_loop or lv[0] in LOOPS
        for rest in chains(depth - 1, inner):
            yield [lv] + rest


def build(chain, level=0):
    if not chain:
        return [['expr', f"systemLog('leaf{level}')"]]
    (cons, pos, fl), rest = chain[0], chain[1:]
    child = build(rest, level + 1)

    def other(tag):
        b = [['expr', f"systemLog('{tag}{level}')"]]
        if fl == 'B':
            b.append(['break'])
        elif fl == 'C':
            b.append(['continue'])
        return b
    if cons == 'if':
        return [['if', [[f'c{level}', child]], None]]
    if cons == 'ifelse':
        return [['if', [[f'c{level}', child if pos == 0 else other('t')]], child if pos == 1 else other('e')]]
    if cons == 'ifelif':
        return [['if', [[f'c{level}', child if pos == 0 else other('t')], [f'd{level}', child if pos == 1 else other('u')]], None]]
    if cons == 'ifelifelse':
        return [['if', [[f'c{level}', child if pos == 0 else other('t')], [f'd{level}', child if pos == 1 else other('u')]],
                 child if pos == 2 else other('e')]]
    extra = []
    if 'b' in fl:
        extra.append(['if', [[f'k{level} > 1', [['break']]]], None])
    if 'c' in fl:
        extra.append(['if', [[f'k{level} == 1', [['continue']]]], None])
    if cons == 'while':
        return [['assign', f'k{level}', '0'],
                ['while', f'k{level} < 3', [['assign', f'k{level}', f'k{level} + 1']] + extra + child]]
    if cons == 'for':
        return [['for', f'v{level}', None, f'arr{level}', [['assign', f'k{level}', f'v{level}']] + extra + child]]
    if cons == 'fori':
        return [['for', f'v{level}', f'k{level}', f'arr{level}', extra + child]]
    raise ValueError(cons)


def text_of(stmts):
    return sg.program_text(stmts)


def in_function(stmts, name='test', call=True):
    return [['function', name, [], False, stmts]] + ([['expr', f'{name}()']] if call else [])


ENVS = [
    {},
    dict([(f'c{i}', True) for i in range(5)] + [(f'd{i}', True) for i in range(5)] + [(f'arr{i}', [1, 2, 3]) for i in range(5)]
         + [('g0', [1, 2]), ('g1', 1), ('g2', 's')]),
    dict([(f'c{i}', False) for i in range(5)] + [(f'd{i}', True) for i in range(5)] + [(f'arr{i}', [2, 1]) for i in range(5)]
         + [('g0', 0), ('g1', [3]), ('g2', None)]),
    dict([(f'c{i}', i % 2 == 0) for i in range(5)] + [(f'd{i}', False) for i in range(5)] + [(f'arr{i}', [1]) for i in range(5)]),
]

CONTEXTS = [[('if', 0, '')], [('while', 0, 'b')], [('for', 0, 'c')], [('ifelse', 1, ''), ('fori', 0, 'bc')], [('ifelif', 0, ''), ('while', 0, '')]]


def multi_function_scripts(shape_chains):
    """several functions in one script, interleaved with global control flow; function opened inside an open if;
    second function after an if"""
    for ci, ctx in enumerate(CONTEXTS):
        T = build(ctx)
        for ch in shape_chains:
            S = build(ch)
            yield 'multi:T,f(S),T,f(T),S', T + in_function(S, 'fa', False) + T + in_function(T, 'fb', False) + S + \
                [['expr', 'fa()'], ['expr', 'fb()']]
            yield 'multi:S,f(T),S', S + in_function(T, 'fa', False) + S + [['expr', 'fa()']]
            if ci < 2:
                yield 'multi:f(S),f(S),S', in_function(S, 'fa', False) + in_function(S, 'fb', False) + S + [['expr', 'fb()']]
                # function opened inside an open if (and inside an open loop), closed before it
                yield 'multi:if{f(S);S}', [['if', [['c4', in_function(S, 'fa', False) + S]], None], ['expr', 'fa()']] + T
                yield 'multi:while{T;f(S)}else', [['if', [['c4', T + in_function(S, 'fa', False)], ['d4', S]], T]]


# ------------------------------------------------------------------ random line-kind soup: ARBITRARY sequences
def soup(r):
    lines, stack, fn_open, n = [], [], False, r.randint(3, 28)
    names = ['lbl1', 'lbl2', 'done', 'loop', '_x', 'bareScript1']
    for _ in range(n):
        c = r.random()
        ind = '    ' * len(stack)
        top = stack[-1] if stack else None
        if c < 0.16:
            lines.append(f'{ind}va = vb + {r.randint(0, 5)}')
        elif c < 0.22:
            lines.append(f"{ind}systemLog('s')")
        elif c < 0.32:
            lines.append(f'{ind}if c{r.randint(0, 3)}:')
            stack.append('if')
        elif c < 0.40:
            lines.append(f'{ind}while k{r.randint(0, 3)} < 2:')
            stack.append('while')
        elif c < 0.48:
            lines.append(f'{ind}for v{r.randint(0, 3)}' + (f', i{r.randint(0, 3)}' if r.random() < 0.4 else '') + f' in arr{r.randint(0, 3)}:')
            stack.append('for')
        elif c < 0.54:
            if not fn_open or r.random() < 0.1:
                lines.append(f'{ind}' + ('async ' if r.random() < 0.2 else '') + f'function fn{r.randint(0, 3)}(' +
                             r.choice(['', 'aa', 'aa, bb', 'aa, bb...']) + '):')
                stack.append('function')
                fn_open = True
            else:
                lines.append(f'{ind}return va')
        elif c < 0.62 and (top == 'if' or r.random() < 0.08):
            lines.append(f'{ind}elif d{r.randint(0, 3)}:')
        elif c < 0.68 and (top == 'if' or r.random() < 0.08):
            lines.append(f'{ind}else:')
        elif c < 0.74:
            lines.append(f'{ind}break')
        elif c < 0.80:
            lines.append(f'{ind}continue')
        elif c < 0.84:
            lines.append(f'{ind}{r.choice(names)}:')
        elif c < 0.88:
            lines.append(f'{ind}' + r.choice(['jump ', 'jumpif (va > 1) ']) + r.choice(names))
        elif c < 0.90:
            lines.append(f"{ind}include " + r.choice(["'a.bare'", '<b.bare>', "''", '<>', "'sub dir/x y.bare'"]))
        elif stack:
            # close: mostly the right closer, sometimes a wrong one
            k = stack.pop() if r.random() < 0.93 else r.choice(['if', 'while', 'for', 'function'])
            if k == 'function':
                fn_open = False
            lines.append('    ' * len(stack) + 'end' + k)
        else:
            lines.append(f'{ind}vb = 1')
    if r.random() < 0.9:
        while stack:
            k = stack.pop()
            lines.append('    ' * len(stack) + 'end' + k)
    return '\n'.join(lines) + '\n'


def mutate(r, text):
    lines = text.split('\n')
    if len(lines) < 3:
        return text
    for _ in range(r.randint(1, 2)):
        c = r.random()
        i = r.randrange(len(lines))
        if c < 0.35:
            del lines[i]
        elif c < 0.55:
            lines.insert(i, lines[i])
        elif c < 0.75:
            j = r.randrange(len(lines))
            lines[i], lines[j] = lines[j], lines[i]
        elif c < 0.9:
            lines[i] = re.sub(r'\b(endif|endwhile|endfor|else:|break|continue|endfunction)\b',
                              lambda m: r.choice(['endif', 'endwhile', 'endfor', 'else:', 'break', 'continue', 'endfunction']), lines[i])
        else:
            lines.insert(i, r.choice(['__bareScriptDone0:', 'jump __bareScriptLoop0', 'userlabel:', 'jump userlabel']))
        if not lines:
            break
    return '\n'.join(lines)


# ------------------------------------------------------------------ the independent static check (the property itself)
def scopes_of(stmts):
    yield 'global', stmts
    for s in stmts:
        if s[0] == 'function':
            yield f'function {s[1]}', s[5]


def static_check(stmts):
    """-> list of (class, scope, label, detail) for reserved labels"""
    bad = []
    for scope, body in scopes_of(stmts):
        ndef, nref = {}, {}
        for s in body:
            if s[0] == 'label':
                ndef[s[1]] = ndef.get(s[1], 0) + 1
            elif s[0] == 'jump':
                nref[s[1]] = nref.get(s[1], 0) + 1
        for lab, k in nref.items():
            if lab.startswith(RES) and ndef.get(lab, 0) != 1:
                bad.append(('jump-target-undefined' if ndef.get(lab, 0) == 0 else 'jump-target-defined-twice', scope, lab,
                            f'{k} jump(s), {ndef.get(lab, 0)} definition(s) in this scope'))
        for lab, k in ndef.items():
            if lab.startswith(RES) and nref.get(lab, 0) == 0:
                bad.append(('label-never-targeted', scope, lab, f'{k} definition(s), no jump in this scope'))
            if lab.startswith(RES) and k > 1 and lab not in nref:
                bad.append(('label-defined-twice', scope, lab, f'{k} definitions'))
    return bad


LINT_RE = re.compile(r'(Redefinition of (?:global )?label|Unused (?:global )?label|Unknown (?:global )?label) "([^"]*)"')


def uses_reserved(text):
    """the program text itself names a reserved label in a label / jump line (outside the property's quantifier)"""
    return re.search(r'(?m)^\s*(?:jump|jumpif\s*\(.*\))\s+__bareScript|^\s*__bareScript\w*\s*:\s*$', text) is not None


START_LINES = [0, 2, 7, 1000, -3, 1]       # every third accepted text is parsed once more with one of these as start_line_number


def judge(chk, tag, text, res, counters):
    """direct oracle on one implementation result"""
    if 'ok' not in res:
        counters['rejected'] += 1
        return
    counters['accepted'] += 1
    if res.get('shape'):
        chk.oracle_fail.append({'class': 'statement-not-a-single-key-union', 'gen': tag, 'source': text, 'got': res['shape']})
        return
    if res.get('valid') is False:
        chk.oracle_fail.append({'class': 'validate_script-rejects-parser-output', 'gen': tag, 'source': text, 'got': res.get('valid_error')})
    if uses_reserved(text):
        counters['uses_reserved_names'] += 1
        return
    for cls, scope, lab, detail in static_check(res['ok']):
        chk.oracle_fail.append({'class': cls, 'gen': tag, 'source': text, 'scope': scope, 'label': lab, 'got': detail,
                                'expected': 'every __bareScript* jump target defined exactly once in its scope; every __bareScript* label targeted'})
    for w in res.get('lint') or []:
        mm = LINT_RE.search(w)
        if mm and (mm.group(2).startswith(RES) or tag.startswith('shape-')):       # (the shape programs are purely structured: no user labels at all)
            chk.oracle_fail.append({'class': 'lint-label-warning', 'gen': tag, 'source': text, 'got': w, 'expected': 'no label warning for a reserved label'})
    if res.get('lint_error'):
        chk.oracle_fail.append({'class': 'lint-raised', 'gen': tag, 'source': text, 'got': res['lint_error']})
    for i, run in enumerate(res.get('exec') or []):
        counters['executions'] += 1
        if 'exc' in run and 'Unknown jump label' in run.get('msg', '') and RES in run['msg']:
            chk.oracle_fail.append({'class': 'runtime-unknown-jump-label', 'gen': tag, 'source': text, 'env': i, 'got': run})
        elif 'done' in run:
            counters['executions_completed'] += 1
    if any(s[0] == 'jump' and s[1].startswith(RES) for _, b in scopes_of(res['ok']) for s in b):
        counters['accepted_with_reserved_jumps'] += 1


def run(tier):
    chk = core.Check(PID, tier)
    chk.assumptions = [
        'C07_wf quantifies over programs that do not themselves name a __bareScript* label in a label/jump line (user_clean); '
        'the oracle skips the label clauses for generated texts that do',
        'C07_schema (full, no premise): script_schema is a hand reading of BARE_SCRIPT_TYPES; the real validate_script is run by '
        'the oracle on every generated program, script_schema under vm_compute on every correspondence case',
        'execution oracle: only the error "Unknown jump label" for a reserved label is judged; other runtime errors (statement limit, '
        'undefined function) are outside C07',
    ]
    import time
    t0 = time.time()
    proof_ok = chk.prove('Props/C07.v')
    timing = {'prove': round(time.time() - t0, 1)}
    model_ok = proof_ok or chk.model_ready(['Model/Lower.vo'])
    r = core.rng('c07')
    quick = tier == 'quick'
    depth = 3 if quick else 4

    counters = {k: 0 for k in ['accepted', 'rejected', 'uses_reserved_names', 'executions', 'executions_completed',
                               'accepted_with_reserved_jumps']}
    dist = {}
    keep = []            # (tag, text) retained for the correspondence
    samples = []

    def process(batch, corr_budget):
        """batch: list of (tag, text, exec?)  -> run the implementation, judge, retain some for the correspondence"""
        payload = [{'text': t, 'validate': not tag.startswith('shape-function:d4'), 'lint': True,
                    'exec': ENVS if ex is True else ex, 'canon': False, 'max': 300,
                    **({'start': START_LINES[k % len(START_LINES)]} if k % 3 == 0 else {})} for k, (tag, t, ex) in enumerate(batch)]
        results = core.run_impl('c07_lower', payload)
        for (tag, text, _), res in zip(batch, results):
            g = tag.split(':')[0]
            dist[g] = dist.get(g, 0) + 1
            judge(chk, tag, text, res, counters)
        idx = list(range(len(batch)))
        if len(idx) > corr_budget:
            idx = sorted(r.sample(idx, corr_budget))
        for i in idx:
            if len(batch[i][1]) <= (2000 if quick else 4000):
                keep.append((batch[i][0], batch[i][1]))
        if batch and len(samples) < 8:
            samples.append({'gen': batch[0][0], 'text': batch[len(batch) // 2][1], 'impl': results[len(batch) // 2]})

    # 0. corpus: shipped .bare files and hand seeds
    corpus = []
    for path in sorted(glob.glob(os.path.join(core.REPO, 'src', 'bare_script', 'include', '*.bare'))):
        with open(path, encoding='utf-8') as fh:
            corpus.append(('corpus:' + os.path.basename(path), fh.read(), [ENVS[0]]))
    for path in sorted(glob.glob(os.path.join(core.VERIF, 'corpus', PID, '*.json'))):
        import json
        with open(path, encoding='utf-8') as fh:
            for item in json.load(fh):
                corpus.append(('corpus:' + os.path.basename(path), item['text'], True))
    process(corpus, 10**6)     # only texts <= 4000 chars go to the Coq correspondence

    # 1. exhaustive shapes, global scope and inside a function
    n_shapes = 0
    shallow = []
    for d in range(1, depth + 1):
        batch = []
        for ch in chains(d):
            n_shapes += 1
            st = build(ch)
            if d <= 2:
                shallow.append(ch)
            envs = True if d <= 3 else [ENVS[1 + n_shapes % 3]]
            batch.append((f'shape-global:d{d}', text_of(st), envs))
            batch.append((f'shape-function:d{d}', text_of(in_function(st)), envs))
            if len(batch) >= 60000:
                process(batch, 40)
                batch = []
        process(batch, {1: 10**6, 2: 500 if not quick else 50, 3: 600 if not quick else 50, 4: 300}[d])

    # 2. several functions in one script (exhaustive over depth<=2 shapes x contexts x layouts)
    batch = [(tag, text_of(st), True) for tag, st in multi_function_scripts(shallow)]
    process(batch, 60 if quick else 400)

    # 3. random deeper structured programs
    batch = []
    for _ in range(1500 if quick else 20000):
        prog = sg.gen_program(r, max_depth=r.choice([3, 4, 5, 6]), allow_while_continue=True)
        batch.append(('random', text_of(prog), True))
    process(batch, 15 if quick else 150)

    # 4. arbitrary line sequences (soup) and mutated programs (malformed stream)
    batch = [('soup', soup(r), True) for _ in range(6000 if quick else 40000)]
    process(batch, 60 if quick else 400)
    pool = [t for _, t in keep]
    batch = [('mutated', mutate(r, r.choice(pool)), True) for _ in range(3000 if quick else 20000)]
    process(batch, 40 if quick else 300)

    timing['oracle'] = round(time.time() - t0 - timing['prove'], 1)
    # ---- correspondence: model parse_script = implementation parse_script, and the model's own output passes the checks
    corr_n = 0
    if model_ok and keep:
        # big cases first, dealt round-robin over the shards so that no shard gets all the long programs
        shard = 20 if quick else 60
        nsh = max(1, -(-len(keep) // shard))
        order = sorted(range(len(keep)), key=lambda i: -len(keep[i][1]))
        keep = [keep[i] for k in range(nsh) for i in order[k::nsh]]
        texts = [t for _, t in keep]
        impl = core.run_impl('c07_lower', [{'text': t, 'canon': True} for t in texts])
        terms = []
        for t, res in zip(texts, impl):
            ch = sg.chunks_coq([t])
            if res.get('ok') is None and 'ok' in res:
                terms.append('false')
                continue
            # the model's own output must pass the Coq-side checks (wfb only inside the quantifier: text does not name reserved labels)
            wfb = 'true' if uses_reserved(t) else 'script_wfb c'
            terms.append(f'(let r := parse_script {ch} 1 in sres_eqb script_eqb r {sg.parse_result_coq(res)} && '
                         f'match r with ROk c => {wfb} && script_schema c | _ => true end)')
        bad, errors = core.coq_bools('c07', 'Model.Base Model.Num Model.ExprParser Model.Script Model.Lower', terms, shard=shard)
        corr_n = len(terms)
        for k, log in errors:
            chk.corr_fail.append({'class': 'case-file-did-not-evaluate', 'shard': k, 'log': log[-800:]})
        for b in bad[:10]:
            ch = sg.chunks_coq([texts[b]])
            eq = core.coq_show('c07', 'Model.Base Model.Num Model.ExprParser Model.Script Model.Lower',
                               f'(sres_eqb script_eqb (parse_script {ch} 1) {sg.parse_result_coq(impl[b])}, '
                               f'match parse_script {ch} 1 with ROk c => (user_clean {ch} 1, script_wfb c, script_schema c, '
                               f'user_exprs_schema {ch} 1) | _ => (true, true, true, true) end)')
            chk.corr_fail.append({'class': 'model-differs-or-model-output-fails-check', 'gen': keep[b][0], 'source': texts[b],
                                  'impl': impl[b], 'model (equal, (clean, wfb, schema, exprs))': eq[-600:]})
        if len(bad) > 10:
            chk.corr_fail.append({'class': 'model-differs', 'more': len(bad) - 10})

    timing['correspondence'] = round(time.time() - t0 - timing['prove'] - timing['oracle'], 1)
    chk.coverage = {
        'timing_s': timing,
        'evaluations': sum(dist.values()),
        'distinct_nontrivial': counters['accepted_with_reserved_jumps'],
        'rule': '+ round 7: every third accepted text is parsed again with another start_line_number (same model, schema-valid); non-trivial = accepted by parse_script and containing at least one generated (__bareScript*) jump; each such script: '
                'single-key statements, validate_script, static per-scope label check, lint label warnings, execution under '
                f'{len(ENVS)} global environments with maxStatements=300',
        'exhaustive': True,
        'exhaustive_part': f'all nesting chains of depth 1..{depth} over 8 if-forms x child position, while/for/for-with-index x '
                           f'{{-,break,continue,both}} guards, and (inside loops) non-child branches ending in break/continue: {n_shapes} chains, '
                           'each at global scope and inside a function; multi-function layouts over all depth<=2 chains',
        'distribution': dist, 'counters': counters,
        'correspondence_cases': corr_n,
        'samples': samples[:6],
    }
    return chk.finish(TRUSTED)
