"""C12 - one number type: int and float spellings of a number are interchangeable.

proof         : coq/Props/C12.v (Model/LibSeq.v over the REGENERATED argument table): every modelled function with an
                `integer: True` argument gives the identical result, failure and heap for every two spellings of the same
                integral number; coverage obligation over the generated list of integer arguments.
direct oracle : EVERY name of SCRIPT_FUNCTIONS (except clock / random / fetch) x argument lists of 0-5 values of all types,
                each run twice through a real script - integral numbers as host int and as float, recursively inside arrays and
                objects - comparing result, failure, log output and the arguments after the call (whole object graph).
correspondence: the modelled functions, both spellings, against the Coq model (result and post-call heap).
"""
import importlib.util
import json
import math
import os
import sys

from . import core
from .core import cstr, cflt, clist, cZ, cbool  # noqa: F401

PID = 'C12'
TRUSTED = [
    'Coq 8.16.1 kernel + coqc; vm_compute for the finite table obligations and for running the model (no native_compute)',
    'Print Assumptions of every C12 theorem: Closed under the global context (no axioms)',
    'tools/translate_argspecs.py: copies every value_args_model literal (incl. integer: True flags) and the SCRIPT_FUNCTIONS keys '
    'from library.py (Python ast)',
    'Model/LibSeq.v: hand transliteration incl. the int() conversions at each use site (validated by the correspondence)',
    'the direct oracle compares two runs of the implementation with each other (no reference model needed)',
]
EXCLUDED = {'datetimeNow', 'datetimeToday', 'mathRandom', 'systemFetch'}

# top-level integers stay small (they may be used as a count / size / digits: stringRepeat(s, 1e15) cannot be run);
# large ones (< 1e15) appear nested inside arrays / objects and where a plain number is declared
INTS = [0, 1, 2, 3, 4, 5, 6, -1, -2, 10, 16, 36, 100, 255, 1000, 2020, 12, 31, 59, 7, 8, 37]
BIG_INTS = [1000000, 123456789012345, -99999, 4294967296, 999999999999999]
FRACS = [0.5, 1.5, -2.25, 3.14159, 0.001, 2.675]
STRS = ['', 'a', 'abc', 'a,b', 'C:\\', 'dir\\', '\\', 'x"y', '10', '3.0', '-7', 'ff', 'zz', '2020-01-02', '2020-01-02T03:04:05Z',
        '{"a":1,"b":[2.0,"x\\\\"]}', '[1,2.0,"x"]', 'a+', '(b)(c)?', 'struct S\n  int a\n', 'S', ' pad ', 'bob', 'ann', 'a\nb',
        'a > 1', 'a + c', 'b', 'c', 'i', 'g', 'kb', 'été']
# strings that stress the text forms of containers (JSON escapes, number-like text): used inside arrays / objects
HOSTILE = ['C:\\', 'dir\\', '\\', 'a\\\\', 'x"y', '"', 'q\\"', 'tab\t', '}', ']', ',', '1.0', '.0', '5.0,', 'a\nb']
KEYS = ['a', 'b', 'c', 'path', 'size', 'unit']


def load_table():
    here = os.path.join(core.VERIF, 'tools')
    sys.path.insert(0, here)
    spec = importlib.util.spec_from_file_location('translate', os.path.join(here, 'translate.py'))
    tr = importlib.util.module_from_spec(spec)
    os.environ.setdefault('VERIF_REPO', core.REPO)
    spec.loader.exec_module(tr)
    tr.REPO = core.REPO
    tr.SRC = os.path.join(core.REPO, 'src', 'bare_script')
    spec2 = importlib.util.spec_from_file_location('translate_argspecs', os.path.join(here, 'translate_argspecs.py'))
    ta = importlib.util.module_from_spec(spec2)
    spec2.loader.exec_module(ta)
    ta.generate(tr)
    return dict(ta.PY_TABLE), list(ta.PY_FUNCTIONS)


# ---------------------------------------------------------------------------- generators
def g_num(r, big=False):
    if big and r.random() < 0.2:
        return ['n', r.choice(BIG_INTS)]
    return ['n', r.choice(INTS)] if r.random() < 0.8 else ['n', r.choice(FRACS)]


def g_scalar(r, depth=0):
    c = r.random()
    if c < 0.40:
        return g_num(r, big=depth > 0)
    if c < 0.75:
        return ['s', r.choice(HOSTILE if depth > 0 and r.random() < 0.4 else STRS)]
    if c < 0.83:
        return ['z']
    if c < 0.90:
        return ['b', r.random() < 0.5]
    if c < 0.94:
        return ['d']
    if c < 0.97:
        return ['r', r.choice(['a+', '(b)(c)?', ','])]
    return ['fn']


def g_array(r, depth=0):
    return ['a', [g_any(r, depth + 1) for _ in range(r.choice([0, 1, 2, 3, 3, 4, 5]))]]


def g_object(r, depth=0):
    keys = r.sample(KEYS, r.randint(0, 4))
    return ['o', [[k, g_any(r, depth + 1)] for k in keys]]


def g_any(r, depth=0):
    c = r.random()
    if depth < 2 and c < 0.15:
        return g_array(r, depth)
    if depth < 2 and c < 0.28:
        return g_object(r, depth)
    return g_scalar(r, depth)


def g_data(r):
    rows = []
    # measure values are small, or integral values of the size of ids / epoch seconds (still far below 1e15)
    base = r.choice([0, 0, 0, 100000000, 5000000000, 123456789012])
    for _ in range(r.randint(0, 5)):
        a = r.choice([1, 2, 3, 1.5]) if base == 0 else base + r.choice([0, 1, 2, 3, 7])
        rows.append(['o', [['a', ['n', a]], ['b', ['s', r.choice(['x', 'y', 'C:\\'])]], ['c', ['n', r.choice(INTS[:8])]]]])
    return ['a', rows]


def enc_len(e):
    if e[0] in ('a', 'o'):
        return len(e[1])
    if e[0] == 's':
        return len(e[1])
    return 0


def typed_arg(r, sp, first_len):
    t = sp['type']
    name = sp['name']
    if sp['nullable'] and r.random() < 0.2:
        return ['z']
    if t == 'number':
        if sp['integer']:
            c = r.random()
            if c < 0.6:
                return ['n', r.randint(0, first_len + 1)]
            if c < 0.9:
                return ['n', r.choice(INTS)]
            return ['n', r.choice(FRACS)]
        return g_num(r, big=True)
    if t == 'string':
        return ['s', r.choice(STRS)]
    if t == 'array':
        if 'ata' in name:
            return g_data(r)
        if name == 'sorts':
            return ['a', [['a', [['s', r.choice(['a', 'b', 'c'])], ['b', r.random() < 0.5]]]]]
        if name in ('categoryFields', 'categories'):
            return ['a', [['s', 'b']]]
        return g_array(r)
    if t == 'object':
        if name == 'aggregation':
            return ['o', [['categories', ['a', [['s', 'b']]]],
                          ['measures', ['a', [['o', [['field', ['s', 'a']], ['function', ['s', r.choice(['sum', 'count', 'average', 'max', 'min', 'stddev'])]]]]]]]]]
        return g_object(r)
    if t == 'boolean':
        return ['b', r.random() < 0.5]
    if t == 'datetime':
        return ['d']
    if t == 'regex':
        return ['r', r.choice(['a+', '(b)(c)?', ','])]
    if t == 'function':
        return ['fn']
    return g_any(r)


def gen_case(r, f, table):
    specs = table.get(f)
    args = []
    if f in ('arrayIndexOf', 'arrayLastIndexOf', 'arrayDelete', 'arraySort', 'arrayJoin', 'mathMax', 'mathMin', 'systemCompare', 'systemIs') and r.random() < 0.35:
        # values that are EQUAL under Python's == but different BareScript values (true / 1, false / 0, '1'), next to each other: a number must be
        # found / ordered the same however it is spelled
        small = [['b', True], ['b', False], ['n', 0], ['n', 1], ['s', '1'], ['z'], ['n', 1.5], ['n', 2], ['s', '']]
        arr = ['a', [r.choice(small) for _ in range(r.randint(1, 5))]]
        if f in ('arrayIndexOf', 'arrayLastIndexOf'):
            args = [arr, r.choice(small)] + ([['n', r.randint(0, len(arr[1]))]] if r.random() < 0.4 else [])
        elif f in ('mathMax', 'mathMin'):
            args = [r.choice(small) for _ in range(r.randint(1, 4))]
        elif f in ('systemCompare', 'systemIs'):
            args = [r.choice(small), r.choice(small)]
        elif f == 'arrayDelete':
            args = [arr, ['n', r.randint(0, len(arr[1]))]]
        elif f == 'arrayJoin':
            args = [arr, ['s', ',']]
        else:
            args = [arr]
        return {'f': f, 'args': args}
    if specs is not None and r.random() < 0.7:
        first_len = 0
        for i, sp in enumerate(specs):
            if (sp['nullable'] or sp['has_default'] or sp['type'] is None) and r.random() < 0.3:
                break
            if sp['last']:
                for _ in range(r.randint(0, 3)):
                    args.append(g_any(r))
                break
            a = typed_arg(r, sp, first_len)
            if i == 0:
                first_len = enc_len(a)
            args.append(a)
        m = r.random()
        if m < 0.08 and args:
            args[r.randrange(len(args))] = g_any(r)
        elif m < 0.12:
            args.append(g_any(r))
        elif m < 0.15 and len(args) >= 2:
            args[-1] = ['alias', 0]
    else:
        for _ in range(r.randint(0, 5)):
            args.append(g_any(r))
        if f == 'stringFromCharCode' and r.random() < 0.7:
            args = [['n', r.choice([97, 98, 233, 0x4e2d, 65, 0x10ffff, 0x110000, -1, 1.5])] for _ in range(r.randint(0, 4))]
    return {'f': f, 'args': args}


# ---------------------------------------------------------------------------- comparison
def canon(d):
    def cv(x):
        if x[0] == 'i':
            return ['n', str(int(x[1]))]
        if x[0] == 'f':
            f = float.fromhex(x[1])
            if math.isnan(f):
                return ['n', 'nan']
            if not math.isinf(f) and f == math.floor(f):
                return ['n', str(int(f))]
            return ['n', x[1]]
        return x
    return {'vars': [cv(x) for x in d['vars']],
            'cells': [[c[0], [cv(x) for x in c[1]]] if c[0] == 'A' else [c[0], [[k, cv(x)] for k, x in c[1]]] for c in d['cells']]}


def has_integral(enc):
    k = enc[0]
    if k == 'n':
        return isinstance(enc[1], int) or enc[1] == math.floor(enc[1])
    if k == 'a':
        return any(has_integral(e) for e in enc[1])
    if k == 'o':
        return any(has_integral(e) for _, e in enc[1])
    return False


def compare_runs(res):
    out = compare_two(res['int'], res['flt'], 'flt')
    if out is None and 'mix' in res:
        out = compare_two(res['int'], res['mix'], 'mix')         # both spellings side by side in one call (e.g. category 1 and 1.0)
    return out


def compare_two(a, b, other):
    if 'exc' in a or 'exc' in b:
        if a.get('exc') == b.get('exc'):
            return None
        return {'class': 'script-raised-differently', 'int': a, other: b}
    ca, cb = canon(a['dump']), canon(b['dump'])
    if ca['vars'][0] != cb['vars'][0]:
        return {'class': 'result-differs', 'int': {'result': a['dump']['vars'][0], 'failed': a['failed']},
                other: {'result': b['dump']['vars'][0], 'failed': b['failed']}}
    if ca != cb:
        return {'class': 'arguments-after-call-differ', 'int': a['dump'], other: b['dump']}
    if bool(a['failed']) != bool(b['failed']):
        return {'class': 'failure-behaviour-differs', 'int': a['failed'], other: b['failed']}
    if a['logs'] != b['logs']:
        return {'class': 'log-output-differs', 'int': a['logs'], other: b['logs']}
    return None


# ---------------------------------------------------------------------------- operators: every spelling combination of integral operands
OP_BIN = ['+', '-', '*', '/', '%', '**', '==', '!=', '<', '<=', '>', '>=', '&&', '||']
OP_INTS = [0, 1, 2, 3, -1, -2, -8, 7, 10, 16, 23, 34, 255, 1000, -99999, 4294967296, 123456789012345, 999999999999999]
OP_FRACS = [0.5, -2.25, 1.5, 1e-3]


def cli_family(chk):
    """the number a script RETURNS to the command-line interface becomes the exit status whichever way it is held: a literal (float) and the
    same integral value produced as a host int (arrayLength, stringLength, mathFloor, numberParseInt, jsonParse) give the same status"""
    cases, meta = [], []
    for n in (0, 2, 3, 7, 255, 256, 1000):
        spellings = [f'{n}', f'{n}.0', f'arrayLength(arrayNewSize({n}))', f"stringLength(stringRepeat('a', {n}))", f'mathFloor({n}.5)',
                     f"numberParseInt('{n}')", f"jsonParse('{n}')", f"jsonParse('{n}.0')", f'mathRound({n}.2)', f'{n} * 1', f'arrayLength(arrayNewSize({n})) + 0']
        for sp in spellings:
            cases.append({'files': {}, 'argv': ['-c', f'return {sp}']})
            meta.append((n, sp))
    out = core.run_impl('cli_multi', cases, shards=2)
    for (n, sp), res in zip(meta, out):
        want = n if 0 <= n <= 255 else 1
        if res.get('status') != want:
            chk.oracle_fail.append({'class': 'int-float-spelling-changes-result', 'source': f'bare -c "return {sp}"', 'f': 'command-line exit status',
                                    'expected': {'status': want}, 'got': res})
    return len(cases)


def operator_family(chk):
    """a OP b and unary - ! with every integral operand as host int and as float (4 / 2 spelling combinations): the results must be the
    same number (or the same non-number), the same failure (null)"""
    from . import interp
    from fractions import Fraction
    cases, meta = [], []

    def spell(v, as_int):
        return interp.vint(v) if as_int and isinstance(v, int) else interp.vflt(float(v))
    for op in OP_BIN:
        for a in OP_INTS + OP_FRACS:
            for b in OP_INTS + OP_FRACS:
                if op == '**' and isinstance(a, int) and abs(a) > 1000 and isinstance(b, int) and b > 16:
                    continue        # astronomically large exact powers (an int ** int of millions of digits does not terminate: observation F22)
                combos = [(x, y) for x in ((True, False) if isinstance(a, int) else (False,)) for y in ((True, False) if isinstance(b, int) else (False,))]
                if len(combos) < 2:
                    continue
                for x, y in combos:
                    cases.append({'expr_text': f'a {op} b', 'globals': {'a': spell(a, x), 'b': spell(b, y)}, 'locals': None, 'builtins': True})
                    meta.append((op, a, b, x, y))
    for op in ('-', '!'):
        for a in OP_INTS:
            for x in (True, False):
                cases.append({'expr_text': f'{op}a', 'globals': {'a': spell(a, x)}, 'locals': None, 'builtins': True})
                meta.append((op, a, None, x, None))
    impl = core.run_impl('run_script', cases)

    def num_of(t):
        if t[0] == 'int':
            return Fraction(int(t[1], 0))
        if t[0] == 'flt':
            f = float.fromhex(t[1]) if t[1] not in ('nan', 'inf', '-inf') else float(t[1])
            return Fraction(f) if math.isfinite(f) else ('nonfinite', repr(f))
        return None

    def canon_res(res):
        if 'host' in res:
            return ('host', res['host'])
        if 'rt' in res:
            return ('rt', res['rt'])
        t = res.get('res')
        n = num_of(t) if isinstance(t, list) else None
        return ('num', n) if n is not None else ('val', json.dumps(t, sort_keys=True))
    groups = {}
    for m, res in zip(meta, impl):
        groups.setdefault(m[:3], []).append((m[3:], canon_res(res), res))
    n_groups = 0
    for (op, a, b), runs in groups.items():
        n_groups += 1
        first = runs[0][1]
        for sp, c, res in runs[1:]:
            if c != first:
                exact = any(r_[1][0] == 'num' and not isinstance(r_[1][1], tuple) and abs(r_[1][1]) > 2 ** 53 for r_ in runs)
                chk.oracle_fail.append({'class': 'operator-result-exact-int-vs-rounded-float-beyond-2^53' if exact and all(r_[1][0] == 'num' for r_ in runs)
                                        else 'operator-result-differs-by-spelling',
                                        'source': f'{a!r} {op} {b!r}' if b is not None else f'{op}{a!r}', 'input': {'op': op, 'a': a, 'b': b},
                                        'runs': [{'a_int': s_[0], 'b_int': s_[1], 'result': r_.get('res') or r_.get('rt') or r_.get('host')} for s_, _, r_ in runs]})
                break
    return {'operator_groups': n_groups, 'operator_evaluations': len(cases)}


# ---------------------------------------------------------------------------- Coq encoding (modelled functions, scalar and flat-array arguments)
MODELLED = None


def coq_scalar(e, as_float):
    k = e[0]
    if k == 'z':
        return 'VNull'
    if k == 'b':
        return f'(VBool {cbool(e[1])})'
    if k == 's':
        return f'(VStr {cstr(e[1])})'
    if k == 'n':
        x = e[1]
        if isinstance(x, int) or x == math.floor(x):
            return f'(VNum (NFlt {cflt(float(x))}))' if as_float else f'(VNum (NInt {cZ(int(x))}))'
        return f'(VNum (NFlt {cflt(x)}))'
    if k == 'd':
        return '(VDate 1577934245678000%Z)'
    if k == 'r':
        return '(VRegex 0%N)'
    if k == 'fn':
        return '(VFun 0%N)'
    return None


def coq_case(case, as_float, dump):
    """args -> (coq arg values, coq initial heap); containers allocated in argument order, nested ones after their parent's"""
    heap = []

    def alloc(e):
        idx = len(heap)
        heap.append(None)
        if e[0] == 'a':
            items = [val(x) for x in e[1]]
            heap[idx] = 'CArr ' + clist(items)
        else:
            items = ['(' + cstr(k) + ', ' + val(x) + ')' for k, x in e[1]]
            heap[idx] = 'CObj ' + clist(items)
        return idx

    def val(e):
        if e[0] == 'a':
            return f'(VArr {alloc(e)})'
        if e[0] == 'o':
            return f'(VObj {alloc(e)})'
        return coq_scalar(e, as_float)
    args = []
    for e in case['args']:
        if e[0] == 'alias':
            args.append(args[e[1]])
        else:
            args.append(val(e))
    return clist(args), clist(['(' + h + ')' for h in heap])


# ---------------------------------------------------------------------------- the check
def run(tier):
    from . import c15
    chk = core.Check(PID, tier)
    chk.assumptions = ['integral numbers |n| < 1e15; clock, random and fetch functions excluded',
                       'functions without an integer argument (trig, regex, schema, ...) are covered by the differential run only']
    proof_ok = chk.prove('Props/C12.v')
    model_ok = proof_ok or chk.model_ready(['Model/LibSeq.vo'])

    table, functions = load_table()
    r = core.rng('c12')
    thorough = tier == 'thorough'
    per_fn = 220 if not thorough else 2000
    cases = []
    cdir = os.path.join(core.VERIF, 'corpus', PID)
    if os.path.isdir(cdir):
        for name in sorted(os.listdir(cdir)):
            with open(os.path.join(cdir, name), encoding='utf-8') as fh:
                cases += json.load(fh)
    n_corpus = len(cases)
    # exhaustive small family: every function with an integer argument x every integer position x -1..4 on a length-3 container
    n_family = 0
    for f in functions:
        if f in EXCLUDED or f not in table:
            continue
        specs = table[f]
        for i, sp in enumerate(specs):
            if not sp['integer']:
                continue
            for k in [-1, 0, 1, 2, 3, 4, 10, 36]:
                args = []
                for j, sq in enumerate(specs[:max(i + 1, len([s for s in specs if not (s['nullable'] or s['has_default'])]))]):
                    if j == i:
                        args.append(['n', k])
                    elif sq['type'] == 'array':
                        args.append(g_data(r) if 'ata' in sq['name'] else ['a', [['s', 'ann'], ['s', 'bob'], ['s', 'ann']]])
                    elif sq['type'] == 'string':
                        args.append(['s', 'bobby' if j else 'ann bob ann'])
                    elif sq['type'] == 'number':
                        args.append(['n', 2])
                    elif sq['type'] is None:
                        args.append(['s', 'bob'])
                    else:
                        args.append(typed_arg(r, sq, 3))
                cases.append({'f': f, 'args': args})
                n_family += 1
    # datetimeNew: every component far outside its usual range (the roll-over paths), the others ordinary
    for pos in range(7):
        for k in [-5000, -1000, -100, -40, -32, -31, -1, 0, 1, 12, 13, 31, 32, 59, 60, 62, 63, 100, 255, 366, 1000, 5000, 9999]:
            for base in ([2024, 1, 15, 0, 0, 0, 0], [1999, 12, 31, 23, 59, 59, 999]):
                args = list(base)
                args[pos] = k
                cases.append({'f': 'datetimeNew', 'args': [['n', v] for v in args[:max(3, pos + 1)]]})
                n_family += 1
    for f in functions:
        if f in EXCLUDED:
            continue
        for _ in range(per_fn):
            cases.append(gen_case(r, f, table))
    impl = core.run_impl('lib_spell', cases)
    op_stats = operator_family(chk)
    n_cli = cli_family(chk)

    dist = {}
    n_nontrivial = 0
    n_failed_calls = 0
    for case, res in zip(cases, impl):
        dist[case['f']] = dist.get(case['f'], 0) + 1
        if any(has_integral(e) for e in case['args'] if e[0] != 'alias'):
            n_nontrivial += 1
        if 'failed' in res['int'] and res['int']['failed']:
            n_failed_calls += 1
        bad = compare_runs(res)
        if bad is not None:
            bad['input'] = case
            bad['source'] = f"{case['f']}(" + ', '.join(json.dumps(a) for a in case['args']) + ')'
            chk.oracle_fail.append(bad)

    # ---- correspondence: modelled functions, both spellings, result + post-call state against the Coq model
    corr_n = 0
    if model_ok:
        modelled = set(c15.MODELLED)
        pick = []
        for i, case in enumerate(cases):
            if case['f'] not in modelled:
                continue
            if any('exc' in impl[i][s] for s in ('int', 'flt')):
                continue
            # callback forms are not modelled
            if case['f'] in ('arrayIndexOf', 'arrayLastIndexOf') and len(case['args']) >= 2 and case['args'][1][0] == 'fn':
                continue
            pick.append(i)
        budget = 1500 if not thorough else 12000
        if len(pick) > budget:
            pick = sorted(r.sample(pick, budget))
        terms = []
        meta = []
        for i in pick:
            for s, as_float in (('int', False), ('flt', True)):
                args, heap = coq_case(cases[i], as_float, None)
                d = impl[i][s]['dump']
                vars_ = clist([c15.coq_dv(x) for x in d['vars']])
                cells = clist([f'(DArr {clist([c15.coq_dv(x) for x in c[1]])})' if c[0] == 'A'
                               else f'(DObj {clist(["(" + cstr(k) + ", " + c15.coq_dv(x) + ")" for k, x in c[1]])})' for c in d['cells']])
                terms.append(f'call_matches {vars_} {cells} {cstr(cases[i]["f"])} {args} {heap}')
                meta.append((i, s))
        bad, errors = core.coq_bools('c12', 'Model.Base Model.Num Model.LibVal Model.LibSeq', terms, shard=120)
        corr_n = len(terms)
        for k, log in errors:
            chk.corr_fail.append({'class': 'case-file-did-not-evaluate', 'shard': k, 'log': log[-800:]})
        for b in bad[:10]:
            i, s = meta[b]
            args, heap = coq_case(cases[i], s == 'flt', None)
            shown = core.coq_show('c12', 'Model.Base Model.Num Model.LibVal Model.LibSeq', f'lib {cstr(cases[i]["f"])} {args} {heap}')
            chk.corr_fail.append({'class': 'model-differs', 'input': cases[i], 'spelling': s, 'impl': impl[i][s], 'model': shown[-2500:]})
        if len(bad) > 10:
            chk.corr_fail.append({'class': 'model-differs', 'more': len(bad) - 10})

    chk.coverage = {
        'evaluations': 2 * len(cases) + op_stats['operator_evaluations'], 'operators': op_stats, 'cli_exit_status_runs': n_cli,
        'distinct_nontrivial': n_nontrivial,
        'rule': '+ round 7: arrays mixing true / false / 0 / 1 / "1" for the search, order and extreme functions; one evaluation = one call of a library function through a real script (each case is run in both spellings); '
                'non-trivial = the argument list contains at least one integral number (top level or nested)',
        'functions': len(dist), 'excluded': sorted(EXCLUDED), 'cases_per_function_min': min(dist.values()) if dist else 0,
        'corpus_cases': n_corpus, 'family_cases (integer positions x -1..4,10,36)': n_family,
        'calls_that_failed (int spelling)': n_failed_calls,
        'exhaustive': True,
        'exhaustive_part': 'every declared integer argument of every function x the values -1,0,1,2,3,4,10,36 with well-typed other arguments',
        'distribution': dict(sorted(dist.items())),
        'correspondence_cases': corr_n,
        'samples': [cases[i] for i in (0, len(cases) // 2, len(cases) - 1)] if cases else [],
    }
    return chk.finish(TRUSTED)


def replay(data):
    print(json.dumps(data, indent=1)[:6000])
    return 0
