"""C14 - JSON serialisation is faithful: jsonParse(jsonStringify(v)) equals v.

proof         : coq/Props/C14.v (model = Model/Json.v; the clean-up regex is REGENERATED from value.py and pinned to the
                proved scanner on an exhaustive family inside Coq)
direct oracle : on the implementation only (independent of the Coq model): for every generated value and indent
                  * jsonStringify(v, indent) through a real script == value_json(v, indent) and is a string
                  * the harness's own json.loads (standard parser, NaN/Infinity refused) reads a value equal to v
                    (numbers by value, bool/number/null kept apart), so no string or key character is altered
                  * jsonParse(jsonStringify(v, indent)) through the script equals v
                  * object keys appear in sorted order at every object, integral numbers carry no fraction
                  * two different values never give the same text (all cases of one run, pairwise by text)
correspondence: inside Coq (vm_compute): model encode (scanner AND regenerated-regex clean-up) == value_json text;
                model reader on that text == what jsonParse returned; model reader == jsonParse (accept/reject and value)
                on a malformed stream; scanner == regenerated regex on raw character soup.
"""
import itertools
import json
import math
import re

from . import core
from .core import cstr, cflt, clist, cnat, copt, cbool  # noqa: F401

PID = 'C14'
TRUSTED = [
    'Coq 8.16.1 kernel + coqc; vm_compute for the finite obligation (clean-up scanner == regenerated regex on all 19608 strings of '
    'length <= 5 over a 7-letter alphabet) and for running the model (no native_compute)',
    'Print Assumptions of every C14 theorem: Closed under the global context (no axioms)',
    'tools/translate.py: copies _R_VALUE_JSON_NUMBER_CLEANUP of value.py (parsed by CPython\'s own re._parser) into coq/Gen/Regexes.v',
    'Model/Regex.v: hand-written backtracking matcher assumed to implement CPython re semantics (validated by the correspondence)',
    'Model/Json.v: hand model of json.JSONEncoder(sort_keys, ensure_ascii, separators, indent).encode as called by value_json, and of '
    'json.loads (RFC 8259 reader) - both CPython library code outside /repo - validated by the correspondence on every run',
    'number tokens: CPython repr(float)/repr(int) text is passed into the model as the token (CPython float printing is an oracle); '
    'Model/Num.v py_float models float(token) for the reader correspondence',
    'harness/c14.py: type-aware value equality, key-order / fraction checks and the harness interpreter\'s json.loads as "any standard parser"',
]

# ------------------------------------------------------------------ values
SMALL = ['a', '.', '0', ',', ']', '}']
ALPHA = (list('a.0,]}"\\/') * 3 + list(' :{[e-1bu') +
         ['\n', '\t', '\r', '\x08', '\x0c', '\x00', '\x1f', '\x7f', '\x80', '\u00e9', '\u2028', '\ud7ff', '\ue000', '\uffff',
          '\U00010000', '\U0001f600', '\U0010ffff'])
NUMS = [0, 1, -1, 7, 10, 100, 2**53, 2**53 + 1, 2**64, -2**63, 123456789012345678901234567890,
        0.0, -0.0, 1.0, -1.0, 1.5, -2.25, 10.0, 100.0, 120.0, 1.05, 0.1, 0.5, 1e15, 1e16, 1.5e16, 1e21, 1e22, 1e-7, 1.5e-7, 1e-5, 0.0001,
        123456789.0, 1e100, 1.7976931348623157e308, 5e-324, 2.2250738585072014e-308, 3.0e10, 4503599627370496.0, 9007199254740993.0,
        0.30000000000000004, 1234.5678, -1e16, 1e+300, 2.5e-300]


def gen_string(r, alpha=ALPHA, maxlen=6):
    return ''.join(r.choice(alpha) for _ in range(r.choice([0, 1, 1, 2, 2, 3, 3, 4, 5, maxlen])))


def gen_number(r):
    c = r.random()
    if c < 0.55:
        return r.choice(NUMS)
    if c < 0.65:
        return r.randint(-10**6, 10**6)
    if c < 0.75:
        return float(r.randint(-10**6, 10**6))
    if c < 0.85:
        return r.randint(-10**6, 10**6) / r.choice([2, 4, 8, 10, 100, 1000])
    if c < 0.93:
        return r.uniform(-1, 1) * 10 ** r.randint(-30, 30)
    return float(r.randint(1, 99)) * 10.0 ** r.randint(0, 25)


def gen_scalar(r):
    c = r.random()
    if c < 0.08:
        return None
    if c < 0.18:
        return r.random() < 0.5
    if c < 0.50:
        return gen_number(r)
    if c < 0.62:
        return gen_string(r, SMALL, 4)
    return gen_string(r)


def gen_value(r, depth):
    c = r.random()
    if depth <= 0 or c < 0.30:
        return gen_scalar(r)
    if c < 0.36:
        x = gen_value(r, depth - 1)            # the same sub-value in several positions (the worker also runs it as ONE shared object)
        return r.choice([[x, x], {'from': x, 'to': x}, [x, [x], {'k': x}]])
    if c < 0.66:
        return [gen_value(r, depth - 1) for _ in range(r.choice([0, 1, 2, 2, 3, 4]))]
    d = {}
    for _ in range(r.choice([0, 1, 2, 2, 3, 4])):
        k = gen_string(r, SMALL, 4) if r.random() < 0.4 else gen_string(r)
        d[k] = gen_value(r, depth - 1)
    return d


def depth_of(v):
    if isinstance(v, list):
        return 1 + max([depth_of(x) for x in v], default=0)
    if isinstance(v, dict):
        return 1 + max([depth_of(x) for x in v.values()], default=0)
    return 0


def tag(x):
    if x is None:
        return ['n']
    if isinstance(x, bool):
        return ['b', x]
    if isinstance(x, int):
        return ['i', str(x)]
    if isinstance(x, float):
        return ['f', x.hex()]
    if isinstance(x, str):
        return ['s', x]
    if isinstance(x, list):
        return ['a', [tag(y) for y in x]]
    if isinstance(x, dict):
        return ['o', [[k, tag(y)] for k, y in x.items()]]
    raise ValueError(repr(x))


def untag(t):
    k = t[0]
    if k == 'n':
        return None
    if k == 'b':
        return bool(t[1])
    if k == 'i':
        return int(t[1])
    if k == 'f':
        return float.fromhex(t[1])
    if k == 's':
        return t[1]
    if k == 'a':
        return [untag(x) for x in t[1]]
    if k == 'o':
        return {key: untag(x) for key, x in t[1]}
    return ('?', t[1:])


def isnum(x):
    return isinstance(x, (int, float)) and not isinstance(x, bool)


def veq(a, b):
    """equality of JSON values: null/bool/number/string kept apart, numbers by value, objects as maps"""
    if a is None or b is None:
        return a is None and b is None
    if isinstance(a, bool) or isinstance(b, bool):
        return isinstance(a, bool) and isinstance(b, bool) and a == b
    if isnum(a) or isnum(b):
        return isnum(a) and isnum(b) and a == b
    if isinstance(a, str) or isinstance(b, str):
        return isinstance(a, str) and isinstance(b, str) and a == b
    if isinstance(a, list) or isinstance(b, list):
        return isinstance(a, list) and isinstance(b, list) and len(a) == len(b) and all(veq(x, y) for x, y in zip(a, b))
    if isinstance(a, dict) and isinstance(b, dict):
        return a.keys() == b.keys() and all(veq(a[k], b[k]) for k in a)
    return False


def first_diff(a, b, path='v'):
    """where two values differ (for the report)"""
    if isinstance(a, list) and isinstance(b, list) and len(a) == len(b):
        for i, (x, y) in enumerate(zip(a, b)):
            if not veq(x, y):
                return first_diff(x, y, f'{path}[{i}]')
    if isinstance(a, dict) and isinstance(b, dict):
        if a.keys() != b.keys():
            return {'at': path, 'keys_expected': sorted(set(a) - set(b))[:3], 'keys_got': sorted(set(b) - set(a))[:3]}
        for k in a:
            if not veq(a[k], b[k]):
                return first_diff(a[k], b[k], f'{path}[{k!r}]')
    return {'at': path, 'expected': repr(a)[:120], 'got': repr(b)[:120]}


# ------------------------------------------------------------------ the standard parser of the harness (not the repo's code)
class Pairs(list):
    pass


class NumTok(str):
    pass


def _refuse_constant(name):
    raise ValueError('non-standard JSON constant ' + name)


def std_tokens(text):
    """parse with the key order and the raw number tokens kept"""
    return json.loads(text, object_pairs_hook=Pairs, parse_float=NumTok, parse_int=NumTok, parse_constant=_refuse_constant)


def std_value(text):
    return json.loads(text, parse_constant=_refuse_constant)


def walk_tokens(t, bad_order, bad_frac):
    if isinstance(t, Pairs):
        keys = [k for k, _ in t]
        if keys != sorted(keys) or len(set(keys)) != len(keys):
            bad_order.append(keys[:8])
        for _, x in t:
            walk_tokens(x, bad_order, bad_frac)
    elif isinstance(t, list):
        for x in t:
            walk_tokens(x, bad_order, bad_frac)
    elif isinstance(t, NumTok):
        s = str(t)
        if re.search(r'\.0*(?:[eE]|$)', s):
            bad_frac.append(s)              # a fraction made of zeros only (or empty)
        elif '.' in s and 'e' not in s.lower() and float(s).is_integer():
            bad_frac.append(s)


# ------------------------------------------------------------------ model side
R_REPR = re.compile(r'^(-?)(\d+)(?:\.(\d+))?(?:e([+-]?)(\d+))?$')


def cnum(x):
    m = R_REPR.match(repr(x))
    if not m:
        raise ValueError(repr(x))
    neg, ip, fr, sg, ex = m.groups()
    frac = 'None' if fr is None else f'(Some {cstr(fr)})'
    if ex is None:
        exp = 'None'
    else:
        exp = f'(Some ({ {"": "ESNone", "+": "ESPlus", "-": "ESMinus"}[sg] }, {cstr(ex)}))'
    return f'(JN {cbool(neg == "-")} {cstr(ip)} {frac} {exp})'


def cjv(v):
    if v is None:
        return 'JNull'
    if isinstance(v, bool):
        return f'(JBool {cbool(v)})'
    if isnum(v):
        return f'(JNum {cnum(v)})'
    if isinstance(v, str):
        return f'(JStr {cstr(v)})'
    if isinstance(v, list):
        return f'(JArr {clist([cjv(x) for x in v])})'
    if isinstance(v, dict):
        return '(JObj ' + clist([f'({cstr(k)}, {cjv(x)})' for k, x in v.items()]) + ')'
    raise ValueError(repr(v))


def cpyv(t):
    k = t[0]
    if k == 'n':
        return 'PNull'
    if k == 'b':
        return f'(PBool {cbool(t[1])})'
    if k == 'i':
        return f'(PNum (NInt ({int(t[1])})%Z))'
    if k == 'f':
        return f'(PNum (NFlt {cflt(float.fromhex(t[1]))}))'
    if k == 's':
        return f'(PStr {cstr(t[1])})'
    if k == 'a':
        return f'(PArr {clist([cpyv(x) for x in t[1]])})'
    if k == 'o':
        return '(PObj ' + clist([f'({cstr(key)}, {cpyv(x)})' for key, x in sorted(t[1], key=lambda kv: kv[0])]) + ')'
    return 'PBad'


def cindent(i):
    return 'None' if i is None else f'(Some {cnat(i)})'


# ------------------------------------------------------------------ malformed stream
HAND_TEXTS = [
    '01', '1.', '.5', '-', '-a', '1e5', '1E+5', '1e+', '1e', '1.5e-3', '-0', '-0.0', '0.0', '1.0', '10.00', '1.0e2', '[1,]', '[,1]', '[1 2]',
    '{"a":1,}', '{"a" 1}', '{a:1}', '{"a":1 "b":2}', '{"a":1,"a":2}', '{"b":1,"a":2,"b":3}', 'nul', 'null', 'nulll', 'tru', 'true', 'false',
    'fals', '"\\u12G4"', '"\\u12g4"', '"\\uABCD"', '"\\uabcd"', '"\\ud83d\\ude00"', '"\\ud83d"', '"\\ud83dx"', '"\\ud83d\\u0041"',
    '"\\ude00\\ud83d"', '"\\ud83d\\ud83d\\ude00"', '"\\ud83d\\uZZZZ"', '"\\ud83d\\u00"', '"\x01"', '"\t"', '"\x7f"', ' [ 1 , 2 ] ',
    '\t\n\r {"a" : [ ] , "b" : { } }\n', '[1]\u00a0', '\u00a0[1]', '\ufeff[1]', '"abc', '"\\q"', '"\\/"', '"\\', '"\\"', '"a\\\\"', '1e999',
    '-1e999', '1e-999', '123456789012345678901234567890', '-123456789012345678901234567890.5', '', ' ', '[', ']', '{', '}', '[[]]', '[{}]',
    '{"":{}}', '[[[[[[1]]]]]]', '"a" "b"', '1 2', '1,', '[1],', '{"a":}', '{"a"}', '{"a":1}}', '[1]]', '"\\b\\f\\n\\r\\t\\"\\\\"', '+1', '0x10',
    '[[n', '[[[[', '[[[[1', '[[[[1]]]', '[[[[[[[[[[', '{"a":{"a":{"a":', '{"a":{"a":{"a":n', '[{"a":[{"a":[', '[[[["', '[ [ [ [ n',
    '1_0', '1.e5', '0e0', '0E-0', '-0e+00', '00', '-01', '0.', '[0.]', '[1.0,2.50,3.00e1]', "'a'", '[\'a\']', 'None', 'True',
]
MUT_CHARS = list('[]{}",:\\.0123456789eE+- \t\n\r/ubfnrtalsxN')


def mutate(r, text):
    n = r.choice([1, 1, 1, 2, 3])
    s = list(text)
    for _ in range(n):
        c = r.random()
        if c < 0.35 and s:
            del s[r.randrange(len(s))]
        elif c < 0.75:
            s.insert(r.randint(0, len(s)), r.choice(MUT_CHARS))
        elif c < 0.9 and len(s) >= 2:
            i = r.randrange(len(s) - 1)
            s[i], s[i + 1] = s[i + 1], s[i]
        elif s:
            i = r.randrange(len(s))
            s[i:i + 1] = s[i:i + 1] * 2
    return ''.join(s)


def soup(r):
    alpha = list('"\\.0,]}a\n') * 3 + list(' 1e:[{') + ['\u00e9', '\r', '\U0001f600']
    return ''.join(r.choice(alpha) for _ in range(r.randint(0, 16)))


# ------------------------------------------------------------------ the check
def build_cases(tier, r):
    cases = []      # (value, indent, tag)
    corpus = [
        ({'a': 'etc., x'}, None), ({'k.0,': 1}, None), (['1.0]'], None), ('1.0', None), (['a\\', 1.0, 'b'], None),
        (['a\\', 'b', 'c.0,d'], 4), ({'a\\': 1.0, 'b': '2.0}'}, 2), ('a,]', None), ([',}', '0,]a'], None), ({',]': 1}, 3),
        ([1.0, 1.5, 1e16, 1e-7, -0.0, 10.0, 100.0, 2**64, 1.5e16], None), ([1.0, 1.5, 1e16, 1e-7, -0.0, 10.0, 100.0, 2**64], 1),
        ([], None), ({}, None), ([], 3), ({}, 3), ([[], {}, [[]], {'': {}}], 2), ({'b': 1, 'a': 2, 'B': 3, '': 4, 'aa': 5, '\u00e9': 6,
                                                                                   '\U0001f600': 7, '\uffff': 8}, None),
        ('\U0001f600\x00\x1f\x7f"\\/\n\r\t\x08\x0c\u2028', None), ({'"': '"', '\\': '\\', '\\"': '\\"'}, 1), (None, None), (True, 5),
        (False, None), (1.0, None), (1.0, 8), (-0.0, None), ('', None), ({'': ''}, None), ([[[[[1.0]]]]], 8), ('.0', None), ('.', None),
        ('x.000\n', None), (['.0\n', 2.0], 2), ({'a': {'b': {'c': {'d': {'e': 1.0}}}}}, 2), ('\\u0041', None), ('\\', None),
        (['"', 1.0], None), (['\\"', 1.0, '.0,'], None), ([1.0, '\\\\', 2.0, '\\', 3.0], None),
    ]
    for v, ind in corpus:
        cases.append((v, ind, 'corpus'))
    # exhaustive: every string of length <= 4 over {a . 0 , ] }} as a value, as a key (with a float that must lose its fraction) and
    # inside an array in front of such a float
    k = 0
    for n in range(0, 5):
        for tup in itertools.product(SMALL, repeat=n):
            s = ''.join(tup)
            inds = range(0, 9) if tier == 'thorough' else (0, 1 + k % 8)
            for ind in inds:
                ind = None if ind == 0 else ind
                cases.append((s, ind, 'exh-value'))
                cases.append(({s: 1.0}, ind, 'exh-key'))
                cases.append(([s, 2.0, s], ind, 'exh-array'))
            k += 1
    # every string of length <= 2 over the escaping-sensitive letters, in front of a float and a dotted string
    esc = ['\\', '"', '.', '0', ',', 'a', '\n']
    for n in range(0, 4 if tier == 'thorough' else 3):
        for tup in itertools.product(esc, repeat=n):
            s = ''.join(tup)
            cases.append(([s, 1.0, 'c.0,d'], None if k % 3 else 1 + k % 8, 'exh-escape'))
            cases.append(({s: [s, 10.0]}, None if k % 2 else 1 + k % 8, 'exh-escape'))
            k += 1
    # every number of the pool at every indent, alone and inside containers
    for x in NUMS:
        for ind in [None] + list(range(1, 9)):
            cases.append((x, ind, 'numbers'))
        cases.append(([x, x], None, 'numbers'))
        cases.append(({'n': x, 'm': [x]}, 2, 'numbers'))
    # strings and keys whose CONTENT looks like number text (Python's and JSON's spellings) followed by a delimiter: no pass over the finished
    # text may touch them
    spell = set()
    for x in NUMS + [1e-05, 2e-05, 1.5e-06, 1e-09, 1e+16, 123456.0]:
        spell.update([repr(x), repr(x).replace('e-0', 'e-').replace('e+', 'e'), repr(x).upper()])
    spell.update(['1e-05', '1e-5', '1E-05', '1.0', '1.', '01', '1e+16', '1e16', '-0.0', '-0', '0.10'])
    spell = sorted(spell)
    for j, t in enumerate(spell):
        for d in (',', ']', '}', '\n', '', ', ', ':'):
            sj = t + d + (spell[(j * 7 + 3) % len(spell)] if d in (',', ', ', ':') else '')
            cases.append((sj, None, 'number-text'))
            cases.append(([sj, 1e-05, sj], None if j % 2 else 1 + j % 8, 'number-text'))
            cases.append(({sj: 1e-07, 'z': sj}, None if j % 3 else 1 + j % 8, 'number-text'))
    # structured random, depth <= 5
    n_rand = 2500 if tier == 'quick' else 40000
    for _ in range(n_rand):
        v = gen_value(r, r.choice([1, 2, 3, 4, 5, 5]))
        cases.append((v, r.choice([None, None, 1, 2, 3, 4, 5, 6, 7, 8]), 'random'))
    return cases


def run(tier):
    chk = core.Check(PID, tier)
    chk.assumptions = [
        'values: null, booleans, finite numbers, strings without surrogate code points (D800-DFFF), arrays, string-keyed objects',
        'CPython json encoder/decoder and float repr as modelled in Model/Json.v (validated by the correspondence)',
        'nesting depth <= 5 in the generated values (the host recursion limit is not modelled)',
    ]
    proof_ok = chk.prove('Props/C14.v')
    model_ok = proof_ok or chk.model_ready(['Model/JsonRe.vo'])

    r = core.rng('c14')
    cases = build_cases(tier, r)
    payload = [{'v': tag(v), 'indent': ind} for v, ind, _ in cases]
    impl = core.run_impl('json_rt', payload)

    # ---- direct oracle (implementation only)
    dist = {}
    by_text = {}
    nontrivial = set()
    maxdepth = 0
    n_strings_with_specials = 0

    def fail(cls, v, ind, **kw):
        chk.oracle_fail.append({'class': cls, 'input': {'value': tag(v), 'value_repr': repr(v)[:300], 'indent': ind},
                                'source': f'jsonStringify({v!r}, {ind})'[:400], **kw})

    for (v, ind, tg), res in zip(cases, impl):
        dist[tg] = dist.get(tg, 0) + 1
        maxdepth = max(maxdepth, depth_of(v))
        text = res.get('text')
        if not isinstance(text, str):
            fail('value_json-raised', v, ind, got=text)
            continue
        if 'shared_text' in res and res['shared_text'] != res.get('stext'):
            fail('shared-sub-container-serialises-differently', v, ind, got=res['shared_text'], expected=res.get('stext'))
            continue
        # a standard parser reads it back
        try:
            toks = std_tokens(text)
            back_std = std_value(text)
        except (ValueError, RecursionError) as exc:
            fail('text-is-not-valid-json', v, ind, got=text, detail=str(exc)[:200])
            continue
        if not veq(v, back_std):
            fail('standard-parser-reads-a-different-value', v, ind, got=text, diff=first_diff(v, back_std))
        bad_order, bad_frac = [], []
        walk_tokens(toks, bad_order, bad_frac)
        if bad_order:
            fail('keys-not-sorted', v, ind, got=text, detail=bad_order[:3])
        if bad_frac:
            fail('integral-number-written-with-a-fraction', v, ind, got=text, detail=bad_frac[:3])
        # through the script
        stext = res.get('stext')
        if stext != text:
            fail('jsonStringify-differs-from-value_json', v, ind, expected=text, got=stext)
        back = res.get('back')
        if not isinstance(back, list):
            fail('jsonParse-of-jsonStringify-raised', v, ind, got=back)
        else:
            b = untag(back)
            if not veq(v, b):
                fail('jsonParse-of-jsonStringify-differs', v, ind, text=stext if isinstance(stext, str) else text, diff=first_diff(v, b),
                     log=res.get('log'))
        # injectivity
        key = (ind, text)
        if key in by_text:
            if not veq(by_text[key], v):
                fail('two-different-values-same-text', v, ind, got=text, other=repr(by_text[key])[:300])
        else:
            by_text[key] = v
            if isinstance(v, (list, dict)) and len(text) > 12 or isinstance(v, str) and any(c in v for c in '.,]}"\\'):
                nontrivial.add(key)
        if any(c in text for c in '\\'):
            n_strings_with_specials += 1

    # ---- the serialisation as grouping / join KEY (data.py): a value and the STRING spelling its JSON text are different keys
    key_pairs = [("1", "'1'"), ("null", "'null'"), ("true", "'true'"), ("arrayNew(1, 2)", "'[1,2]'"), ("objectNew('a', 1)", "'{" + '"a"' + ":1}'"),
                 ("'a'", "'" + '"a"' + "'"), ("1.5", "'1.5'"), ("0", "false"), ("''", "'" + '""' + "'"),
                 # different numbers that agree in their first 12 and more significant digits are different keys
                 ("1700000000001", "1700000000002"), ("4503599627370497", "4503599627370498"), ("0.1 + 0.2", "0.3"),
                 ("1.5e+300", "1.5000000000001e+300"), ("1e-7", "1.00000000000001e-7"), ("123456789012.25", "123456789012.5")]
    ksrc = ["left = arrayNew(" + ", ".join(f"objectNew('k', {a}, 'v', {i})" for i, (a, _) in enumerate(key_pairs)) + ")",
            "right = arrayNew(" + ", ".join(f"objectNew('k', {b}, 'w', {i})" for i, (_, b) in enumerate(key_pairs)) + ")",
            "jj = dataJoin(left, right, 'k', null, true)",
            "hits = 0", "for row in jj:", "    if objectHas(row, 'w'):", "        hits = hits + 1", "    endif", "endfor",
            "both = arrayNew()", "for row in left:", "    arrayPush(both, objectNew('k', objectGet(row, 'k')))", "endfor",
            "for row in right:", "    arrayPush(both, objectNew('k', objectGet(row, 'k')))", "endfor",
            "groups = dataAggregate(both, objectNew('categories', arrayNew('k'), 'measures', arrayNew(objectNew('field', 'k', 'function', 'count', 'name', 'n'))))",
            "return arrayNew(hits, arrayLength(groups))"]
    kres = core.run_impl('run_script', [{'text': '\n'.join(ksrc) + '\n', 'globals': {}, 'max': 0}], shards=1)[0]
    want = ['arr', [['flt', (0.0).hex()], ['int', str(2 * len(key_pairs))]]]
    got = kres.get('res')
    def _nums(t):
        return [float.fromhex(x[1]) if x[0] == 'flt' else float(int(x[1], 0)) for x in t[1]] if isinstance(t, list) and t and t[0] == 'arr' else t
    if _nums(got) != _nums(want):
        chk.oracle_fail.append({'class': 'value-and-the-string-of-its-json-text-share-a-key', 'source': '\n'.join(ksrc),
                                'input': {'pairs': key_pairs}, 'expected': {'joined_hits': 0, 'groups': 2 * len(key_pairs)},
                                'got': kres.get('res') or kres})

    # ---- correspondence inside Coq
    corr_n = 0
    if model_ok:
        budget = {'corpus': 10**9, 'exh-value': 250, 'exh-key': 200, 'exh-array': 150, 'exh-escape': 200, 'numbers': 250, 'random': 500, 'number-text': 250}
        if tier == 'thorough':
            budget = {k: v * 5 for k, v in budget.items()}
        by_tag = {}
        for i, c in enumerate(cases):
            by_tag.setdefault(c[2], []).append(i)
        pick = []
        for tg, idxs in by_tag.items():
            if len(idxs) > budget.get(tg, 500):
                idxs = sorted(r.sample(idxs, budget[tg]))
            pick += idxs
        flagged = {json.dumps(f['input'], sort_keys=True) for f in chk.oracle_fail}
        terms, meta = [], []
        for i in pick:
            v, ind, _ = cases[i]
            res = impl[i]
            if not isinstance(res.get('text'), str):
                chk.corr_fail.append({'class': 'impl-raised-where-model-encodes', 'value': repr(v)[:300], 'indent': ind, 'impl': res.get('text')})
                continue
            terms.append(f'encode_is {cindent(ind)} {cjv(v)} {cstr(res["text"])}')
            meta.append(('encode', i))
            if isinstance(res.get('back'), list) and isinstance(res.get('stext'), str):
                terms.append(f'loads_is {cstr(res["stext"])} (Some {cpyv(res["back"])})')
                meta.append(('loads', i))
        # malformed stream for the reader
        seeds = [impl[i]['text'] for i in pick if isinstance(impl[i].get('text'), str) and len(impl[i]['text']) <= 120]
        mal = list(HAND_TEXTS)
        n_mal = 700 if tier == 'quick' else 6000
        for _ in range(n_mal):
            mal.append(mutate(r, r.choice(seeds) if r.random() < 0.7 else r.choice(HAND_TEXTS)))
        # outside the modelled reader: CPython's NaN/Infinity constants, surrogate code points, and exponents of more than
        # 3 digits (Model/Num.v computes 10^|e| exactly; CPython answers inf/0.0 at once)
        mal = [t for t in mal if 'NaN' not in t and 'Infinity' not in t and not re.search(r'[\ud800-\udfff]', t)
               and not re.search(r'[eE][+-]?\d{4,}', t)]
        mres = core.run_impl('json_rt', [{'parse': t} for t in mal])
        n_acc = 0
        for t, res in zip(mal, mres):
            if 'parsed' in res:
                n_acc += 1
                terms.append(f'loads_is {cstr(t)} (Some {cpyv(res["parsed"])})')
            elif res.get('exc') == 'JSONDecodeError':
                terms.append(f'loads_is {cstr(t)} None')
            else:
                chk.corr_fail.append({'class': 'jsonParse-raised-an-unexpected-exception', 'text': t, 'impl': res})
                continue
            meta.append(('malformed', t))
        dist['malformed'] = len(mal)
        dist['malformed_accepted'] = n_acc
        # scanner == regenerated regex on character soup
        n_soup = 250 if tier == 'quick' else 2000
        for _ in range(n_soup):
            s = soup(r)
            terms.append(f'cleanup_agree {cstr(s)}')
            meta.append(('soup', s))
        dist['soup'] = n_soup
        bad, errors = core.coq_bools('c14', 'Model.Base Model.Num Model.Json Model.JsonRe', terms, shard=(200 if tier == 'quick' else 400))
        corr_n = len(terms)
        for k, log in errors:
            chk.corr_fail.append({'class': 'case-file-did-not-evaluate', 'shard': k, 'log': log[-800:]})
        for b in bad[:12]:
            kind, ref = meta[b]
            if kind == 'encode':
                v, ind, _ = cases[ref]
                shown = core.coq_show('c14', 'Model.Base Model.Json Model.JsonRe', f'(encode {cindent(ind)} {cjv(v)}, encode_re {cindent(ind)} {cjv(v)})')
                chk.corr_fail.append({'class': 'model-text-differs', 'value': repr(v)[:300], 'indent': ind, 'impl': impl[ref]['text'],
                                      'impl_codepoints': [ord(c) for c in impl[ref]['text']][:200], 'model': shown[-1500:]})
            elif kind == 'loads':
                v, ind, _ = cases[ref]
                chk.corr_fail.append({'class': 'model-reader-differs-on-encoder-output', 'text': impl[ref]['stext'], 'impl': impl[ref]['back']})
            elif kind == 'malformed':
                shown = core.coq_show('c14', 'Model.Base Model.Json Model.JsonRe', f'loads {cstr(ref)}')
                chk.corr_fail.append({'class': 'model-reader-differs', 'text': ref, 'impl': mres[mal.index(ref)], 'model': shown[-1200:]})
            else:
                chk.corr_fail.append({'class': 'scanner-differs-from-regenerated-regex', 'text': ref})
        if len(bad) > 12:
            chk.corr_fail.append({'class': 'model-differs', 'more': len(bad) - 12})
        del flagged

    idx = [0, 4, 40, 2000, len(cases) - 1]
    samples = [{'value': repr(cases[i][0])[:120], 'indent': cases[i][1], 'text': impl[i].get('text')} for i in idx if i < len(cases)]
    chk.coverage = {
        'evaluations': len(cases),
        'distinct_nontrivial': len(nontrivial),
        'rule': '+ round 7: strings and keys whose content is number text followed by a delimiter; join keys that agree in their first 12 digits; each case = (value, indent); value_json + a real script (jsonStringify, jsonParse) on the implementation; non-trivial = '
                'distinct (indent, text) whose value is a container with text > 12 chars or a string containing one of . , ] } " \\',
        'exhaustive': True,
        'exhaustive_part': 'every string of length <= 4 over {a . 0 , ] }} (1555) as value, as key of {s: 1.0} and in [s, 2.0, s]; '
                           'indent none + one of 1..8 (quick) / all of none,1..8 (thorough); every string of length <= 2 (3 thorough) over '
                           '{\\ " . 0 , a newline} in front of a float and a dotted string; every pool number at every indent',
        'distribution': dist, 'max_depth': maxdepth, 'texts_with_backslash': n_strings_with_specials,
        'indents': sorted({str(c[1]) for c in cases}),
        'correspondence_cases': corr_n,
        'samples': samples,
    }
    return chk.finish(TRUSTED)


def replay(data):
    """./check C14 --replay <file>: run the failing inputs of a replay file again on the implementation"""
    items = [f['input'] for f in data.get('failing_inputs', []) if 'input' in f]
    if not items:
        print(json.dumps(data, indent=1)[:4000])
        return 0
    res = core.run_impl('json_rt', [{'v': it['value'], 'indent': it['indent']} for it in items], shards=1)
    rc = 0
    for it, rs in zip(items, res):
        v = untag(it['value'])
        ok = isinstance(rs.get('text'), str) and rs.get('stext') == rs['text'] and isinstance(rs.get('back'), list) and veq(v, untag(rs['back']))
        if ok:
            try:
                ok = veq(v, std_value(rs['text']))
            except ValueError:
                ok = False
        print(('ok   ' if ok else 'FAIL ') + f'{it["value_repr"]} indent={it["indent"]} -> {rs.get("text")!r} back={rs.get("back")!r}'[:400])
        rc |= 0 if ok else 1
    return rc
