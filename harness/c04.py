"""C04 - scoping, calling convention and host globals behave as documented.

proof         : coq/Props/C04.v (parameter binding incl. "...", lookup order, assignment target, library injection) and
                C08_function_statement_binds_global (a function statement writes globals[name] unconditionally)
direct oracle : generated programs with up to 4 functions (0-3 parameters, optional "..." last parameter, parameter / local / global /
                library / built-in NAME COLLISIONS on purpose) calling each other with 0-5 arguments, directly, through a variable,
                through systemPartial and as arraySort callbacks, x host configurations of pre-populated globals that shadow library
                names (values and host functions); an independent reference interpreter predicts return value, log and final globals.
                Plus evaluate_expression cases where locals/globals shadow built-in aliases.
correspondence: the Coq interpreter model against the implementation on the same programs (those that stay inside the modelled library).
"""
import re

from . import core, interp, refinterp

PID = 'C04'
TRUSTED = [
    'Coq 8.16.1 kernel + coqc; vm_compute to run the model (no native_compute)',
    'Print Assumptions of every C04 theorem: Closed under the global context',
    'Model/Interp.v (bind_args, lookup_var, lookup_fn, exec assignment rule, inject_library) transliterates runtime.py; validated by the correspondence',
    'tools/translate_library.py: SCRIPT_FUNCTIONS names regenerated (inject_library folds over the generated list)',
    'harness/refinterp.py: independent reference semantics (direct oracle)',
]
LIBS = ['systemLog', 'arrayNew', 'arrayLength', 'arrayGet', 'arrayPush', 'arraySet', 'objectNew', 'objectGet', 'objectSet', 'stringLength',
        'systemGlobalGet', 'systemGlobalSet', 'systemBoolean', 'systemType', 'systemCompare', 'mathMax', 'mathMin', 'arraySort', 'systemPartial']
# names used on purpose in every role: parameter, local, global, host global, library function, built-in alias, script function
NAMES = ['va', 'vb', 'g0', 'g1', 'arrayLength', 'mathMax', 'stringLength', 'abs', 'len', 'suffix']


class Gen:
    def __init__(self, r):
        self.r = r
        self.n = 0
        self.funcs = []     # (name, params, last)

    def atom(self, scope):
        r = self.r
        c = r.random()
        if c < 0.45:
            return r.choice(scope)
        if c < 0.75:
            return str(r.randint(0, 9))
        if c < 0.9:
            return r.choice(["'s'", "'t'", 'null', 'true'])
        return f'arrayNew({r.randint(0, 3)}, {r.choice(scope)})'

    def call(self, scope, depth):
        r = self.r
        c = r.random()
        if self.funcs and c < 0.6 and depth < 3:
            name, params, last = r.choice(self.funcs)
            n = max(0, len(params) + r.choice([0, 0, -1, -1, 1, 2]))
            return f'{name}(' + ', '.join(self.atom(scope) for _ in range(min(n, 5))) + ')'
        if c < 0.75:
            return f'arrayLength({r.choice(scope)})'
        if c < 0.85:
            return f'mathMax({self.atom(scope)}, {self.atom(scope)})'
        if c < 0.93:
            return f'stringLength({self.atom(scope)})'
        return f"systemGlobalGet('{r.choice(NAMES)}', 'dflt')"

    def expr(self, scope, depth=0):
        r = self.r
        c = r.random()
        if c < 0.4:
            return self.atom(scope)
        if c < 0.7:
            return self.call(scope, depth)
        return f'{self.atom(scope)} {r.choice(["+", "-", "*", "==", "<"])} {self.atom(scope)}'

    def body(self, params, depth):
        r = self.r
        scope = list(dict.fromkeys(params + r.sample(NAMES, 4)))
        lines = []
        self.n += 1
        tag = f'F{self.n}'
        for p in dict.fromkeys(params):
            lines.append(f"systemLog('{tag} {p}=' + systemType({p}) + ':' + if(systemType({p}) == 'array', arrayLength({p}), {p}))")
        for _ in range(r.randint(1, 4)):
            c = r.random()
            if c < 0.45:
                lines.append(f'{r.choice(scope)} = {self.expr(scope, depth)}')
            elif c < 0.7:
                v = r.choice(scope)
                lines.append(f"systemLog('{tag} read {v}=' + systemType({v}))")
            elif c < 0.85:
                lines.append(f"systemGlobalSet('{r.choice(NAMES)}', {self.atom(scope)})")
            else:
                lines.append(f'({self.call(scope, depth)})')
        lines.append(f'return {self.expr(scope, depth)}')
        return lines

    def program(self):
        r = self.r
        nf = r.randint(1, 4)
        decl = []
        for i in range(nf):
            k = r.randint(0, 3)
            params = [r.choice(NAMES + ['p0', 'p1']) for _ in range(k)]
            last = k > 0 and r.random() < 0.3
            name = r.choice([f'fn{i}', f'fn{i}', f'fn{i}', 'mathMax', 'stringLength']) if i else 'fn0'
            decl.append((name, params, last))
        out = []
        for name, params, last in decl:
            self.funcs.append((name, params, last))
        for name, params, last in decl:
            out.append(f'function {name}(' + ', '.join(params) + ('...' if last else '') + '):')
            out += ['    ' + ln for ln in self.body(params, 1)]
            out.append('endfunction')
        scope = NAMES
        for _ in range(r.randint(2, 6)):
            c = r.random()
            if c < 0.35:
                out.append(f'{r.choice(scope)} = {self.expr(scope)}')
            elif c < 0.55:
                out.append(f"systemLog('top ' + systemType({r.choice(scope)}))")
            elif c < 0.7:
                name, params, last = r.choice(self.funcs)
                out.append(f'fv = {name}')
                out.append(f"systemLog('via variable: ' + systemType(fv({', '.join(self.atom(scope) for _ in range(r.randint(0, 3)))})))")
            elif c < 0.82:
                name, params, last = r.choice(self.funcs)
                out.append(f'pf = systemPartial({name}, {self.atom(scope)})')
                out.append(f"systemLog('via partial: ' + systemType(pf({', '.join(self.atom(scope) for _ in range(r.randint(0, 2)))})))")
            elif c < 0.92:
                out.append("function cmp2(a, b):\n    systemLog('cmp ' + a + ' ' + b)\n    return a - b\nendfunction")
                out.append("function cmpr(pair...):\n    systemLog('cmpr ' + systemType(pair) + ' ' + arrayLength(pair))\n"
                           "    return arrayGet(pair, 0) - arrayGet(pair, 1)\nendfunction")
                out.append(f"srt = arraySort(arrayNew(3, 1, 2), {r.choice(['cmp2', 'cmpr', 'systemPartial(cmpr, 0)'])})")
                out.append("systemLog('sorted ' + systemType(srt) + ' ' + if(srt, arrayGet(srt, 0), 'none'))")
            else:
                out.append(f'({self.call(scope, 0)})')
        out.append(f'return arrayNew({", ".join(r.sample(NAMES, 3))})')
        return '\n'.join(out) + '\n'


HOSTVALS = [('num', interp.vflt(5.0)), ('str', ['str', 'host']), ('null', ['null']), ('first', ['hostfn', 'first']), ('count', ['hostfn', 'count'])]


def host_config(r, pool):
    g = {}
    for name in r.sample(NAMES, r.randint(0, 5)):
        kind, spec = r.choice(HOSTVALS)
        if r.random() < 0.2:
            spec = pool.arr([interp.vflt(1), interp.vflt(2)])
        g[name] = spec
    return g


def ref_globals(gspec):
    g = {}
    pool_ = {}
    for k, v in gspec.items():
        if v[0] == 'hostfn':
            g[k] = (lambda vals: vals[0] if vals else None) if v[1] == 'first' else (lambda vals: len(vals))
        else:
            g[k] = interp.py_of_spec(v, pool_)
    for name in LIBS:            # the library is added WITHOUT overwriting any name the caller supplied
        if name not in g:
            g[name] = refinterp.LibFn(name)
    return g


def run(tier):
    chk = core.Check(PID, tier)
    chk.assumptions = ['call depth below 50 (recursion is bounded by construction)']
    proof_ok = chk.prove('Props/C04.v', extra_targets=['Model/Run.vo'])
    model_ok = proof_ok or chk.model_ready(['Model/Run.vo'])
    r = core.rng('c04')
    cases, meta = [], []
    # hand seeds: the situations the property names
    seeds = [
        ("function ff(label, suffix):\n    return label + '/' + suffix\nendfunction\nsuffix = 'G'\nreturn arrayNew(ff('x'), ff('x', 'y'), ff('x', 'y', 'z'))\n", {}),
        ("function ff(a, rest...):\n    return arrayNew(a, arrayLength(rest), rest)\nendfunction\nreturn arrayNew(ff(), ff(1), ff(1, 2), ff(1, 2, 3))\n", {}),
        ("function ff():\n    x = 5\n    g0 = 7\n    return x + g0\nendfunction\nx = 1\nr = ff()\nreturn arrayNew(x, g0, r)\n", {'g0': interp.vflt(2.0)}),
        ("function arrayLength(a):\n    return 'mine'\nendfunction\nreturn arrayNew(arrayLength(arrayNew(1, 2)), mathMax(1, 2))\n", {'mathMax': interp.vflt(9.0)}),
        ("return arrayNew(stringLength('abc'), systemType(mathMax), mathMax(1, 2))\n", {'stringLength': ['hostfn', 'count'], 'mathMax': ['str', 'host']}),
        ("function cmpr(pair...):\n    return arrayGet(pair, 0) - arrayGet(pair, 1)\nendfunction\nreturn arraySort(arrayNew(3, 1, 2), cmpr)\n", {}),
    ]
    for text, g in seeds:
        cases.append({'text': text, 'globals': g, 'max': 2000, 'want_model': True})
        meta.append('seed')
    # an include statement INSIDE a function body: the included statements run in the GLOBAL scope (their assignments write the globals, their
    # reads do not see the call's parameters or locals), and the call's own locals are untouched
    inc_file = "x = 'inc'\ny = 'incy'\np = 'incp'\nsystemLog('inc sees p=' + p + ' x=' + x)\n"
    inc_cases = [
        ("function ff(p):\n    x = 'local'\n    include 'inc.bare'\n    return arrayNew(p, x, y)\nendfunction\np = 'gp'\nr = ff('arg')\nreturn arrayNew(r, x, y, p)\n",
         [['arg', 'local', 'incy'], 'inc', 'incy', 'incp'], ['inc sees p=incp x=inc']),
        ("function ff(p, x):\n    if p:\n        include 'inc.bare'\n    endif\n    return arrayNew(p, x)\nendfunction\nr1 = ff(0, 1)\nr2 = ff(2, 3)\nreturn arrayNew(r1, r2, x, p)\n",
         [[0.0, 1.0], [2.0, 3.0], 'inc', 'incp'], ['inc sees p=incp x=inc']),
        ("function outer(p):\n    return inner(p) + ':' + p\nendfunction\nfunction inner(x):\n    include 'inc.bare'\n    return x\nendfunction\nreturn arrayNew(outer('a'), p)\n",
         ['a:a', 'incp'], ['inc sees p=incp x=inc']),
    ]
    for text, want, wlog in inc_cases:
        cases.append({'text': text, 'globals': {}, 'max': 2000, 'files': {'inc.bare': inc_file}, 'want_model': True})
        meta.append(('include-in-function', want, wlog))
    # a "..." parameter is a FRESH array at every call - also when the function is reached through a systemPartial called without further
    # arguments, and also when it is the only parameter
    cases.append({'text': "function acc(items...):\n    arrayPush(items, arrayLength(items))\n    return arrayLength(items)\nendfunction\n"
                          "pp = systemPartial(acc, 1, 2)\na = pp()\nb = pp()\nc = pp(9)\nd = pp()\nreturn arrayNew(a, b, c, d, acc(), acc(5), acc())\n",
                  'globals': {}, 'max': 2000, 'want_model': True})
    meta.append('seed')
    cases.append({'text': "function tail(first, rest...):\n    arrayPush(rest, first)\n    return rest\nendfunction\n"
                          "pp = systemPartial(tail, 1)\nqq = systemPartial(tail, 1, 2)\nreturn arrayNew(pp(), pp(), qq(), qq(), qq(3), tail(), tail(7))\n",
                  'globals': {}, 'max': 2000, 'want_model': True})
    meta.append('seed')
    # the library is added to the globals WHATEVER single library name the host has pre-populated (every name in turn; the host's value stays)
    lib_names = re.findall(r"^    '(\w+)': _\w+,?$", open(core.REPO + '/src/bare_script/library.py', encoding='utf-8').read().split('SCRIPT_FUNCTIONS = {')[1].split('}')[0], re.M)
    for nm in lib_names:
        text = "return objectGet(objectNew('a', 5), 'a')\n" if nm in ('arrayLength', 'arrayNew', 'stringLength') else \
            "return arrayLength(arrayNew(1, 2)) + stringLength('abc')\n"
        cases.append({'text': text, 'globals': {nm: ['str', 'host']}, 'max': 100})
        meta.append(('host-shadows-one-name', nm, None))
    n = 900 if tier == 'quick' else 6000
    for _ in range(n):
        pool = interp.Pool()
        cases.append({'text': Gen(r).program(), 'globals': host_config(r, pool), 'max': 120, 'want_model': True})
        meta.append('program')
    # expression mode: locals / globals shadow the built-in aliases
    for alias, arg, expect_builtin in (('abs', '0 - 3', 3.0), ('len', "'abcd'", 4.0), ('max', '1', 1.0)):
        for where in ('locals', 'globals', 'none'):
            c = {'expr_text': f'{alias}({arg})', 'globals': {}, 'locals': None, 'builtins': True}
            if where == 'locals':
                c['locals'] = {alias: ['hostfn', 'count']}
            elif where == 'globals':
                c['globals'] = {alias: ['hostfn', 'count']}
            cases.append(c)
            meta.append(('shadow', where, expect_builtin))
        # a name bound to a NON-function value still wins over the built-in: the call then fails (null), it does not fall back
        for where in ('locals', 'globals'):
            for spec in (interp.vflt(7.0), ['str', 'text']):
                c = {'expr_text': f'{alias}({arg})', 'globals': {}, 'locals': None, 'builtins': True}
                c[where] = {alias: spec}
                cases.append(c)
                meta.append(('shadow-value', where, None))
        # ... and a name bound to NULL is still bound: the call is the error `Undefined function`, never the built-in
        for where in ('locals', 'globals'):
            c = {'expr_text': f'{alias}({arg})', 'globals': {}, 'locals': None, 'builtins': True}
            c[where] = {alias: ['null']}
            cases.append(c)
            meta.append(('shadow-null', where, alias))
    # the LAYOUT of a parameter list is not part of the parameter names: the same program with blanks around the commas and inside the
    # parentheses binds the same arguments (compared with its own compact spelling)
    layout_base = len(cases)
    body = "    systemLog('a=' + systemType(a) + ' b=' + systemType(b) + ' c=' + systemType(c))\n    return arrayNew(a, b, c)\nendfunction\n" \
           "a = 'GA'\nb = 'GB'\nreturn arrayNew(ff(1), ff(1, 2), ff(1, 2, 3), ff(1, 2, 3, 4))\n"
    for header in ('function ff(a,b,c):', 'function ff(a, b, c):', 'function ff(a , b , c):', 'function ff( a  ,  b  ,  c ):', 'function ff(a\t,\tb,c ):',
                   'function ff(a, b, c...):', 'function ff(a , b , c...):', 'function ff( a,b ,c... ):'):
        cases.append({'text': header + '\n' + body, 'globals': {}, 'max': 500})
        meta.append(('layout', '...' in header, None))
    impl = core.run_impl('run_script', cases)
    for variadic in (False, True):
        group = [i for i in range(layout_base, len(cases)) if meta[i][1] == variadic]
        for i in group[1:]:
            if any(impl[i].get(k) != impl[group[0]].get(k) for k in ('res', 'rt', 'log')):
                chk.oracle_fail.append({'class': 'parameter-list-layout-changes-the-binding', 'source': cases[i]['text'],
                                        'compact_spelling': cases[group[0]]['text'].split('\n')[0],
                                        'expected': {k: impl[group[0]].get(k) for k in ('res', 'rt', 'log')},
                                        'got': {k: impl[i].get(k) for k in ('res', 'rt', 'log', 'host', 'parse')}})

    dist, nontrivial, skipped, timeouts = {}, set(), 0, 0
    for i, (m, res) in enumerate(zip(meta, impl)):
        tag = m if isinstance(m, str) else m[0]
        dist[tag] = dist.get(tag, 0) + 1
        src = cases[i].get('text') or cases[i].get('expr_text')
        info = {'source': src, 'host_globals': {k: v[:2] for k, v in cases[i].get('globals', {}).items()}}
        if res.get('host') == 'DidNotTerminate':
            # the harness's own per-case time limit: a script function that shadows a library name it calls recurses until the statement
            # budget stops it, and `s = s + s` in its body doubles a string at every level - a resource blow-up of the generated program,
            # not a scoping question; such programs are left out (counted in the evidence)
            timeouts += 1
            continue
        if 'host' in res:
            chk.oracle_fail.append({'class': 'host-exception', **info, 'got': res})
            continue
        if tag == 'layout':
            continue
        if tag == 'shadow-value':
            if res.get('res') != ['null']:
                chk.oracle_fail.append({'class': 'bound-non-function-does-not-win-over-built-in', **info, 'bound_in': m[1], 'expected': ['null'],
                                        'got': res.get('res') or res.get('rt')})
            continue
        if tag == 'include-in-function':
            got = interp.plain_of_tree(res['res']) if 'res' in res else None
            if got != m[1] or res.get('log') != m[2]:
                chk.oracle_fail.append({'class': 'include-inside-a-function-does-not-run-in-global-scope', **info, 'expected': {'res': m[1], 'log': m[2]},
                                        'got': {k: res.get(k) for k in ('res', 'rt', 'log')}})
            continue
        if tag == 'host-shadows-one-name':
            got = interp.plain_of_tree(res['res']) if 'res' in res else None
            kept = dict((k, v) for k, v in res.get('globals', [])).get(m[1])
            if got != 5.0 or kept != ['str', 'host']:
                chk.oracle_fail.append({'class': 'library-not-added-when-the-host-shadows-one-name', **info, 'expected': {'res': 5.0, m[1]: 'host'},
                                        'got': {'res': res.get('res') or res.get('rt'), m[1]: kept}})
            continue
        if tag == 'shadow-null':
            if res.get('rt') != f'Undefined function "{m[2]}"':
                chk.oracle_fail.append({'class': 'name-bound-to-null-does-not-win-over-built-in', **info, 'bound_in': m[1],
                                        'expected': {'rt': f'Undefined function "{m[2]}"'}, 'got': res.get('res') or res.get('rt')})
            continue
        if tag == 'shadow':
            want = 1.0 if m[1] in ('locals', 'globals') else m[2]
            got = interp.plain_of_tree(res['res']) if 'res' in res else None
            if got != want:
                chk.oracle_fail.append({'class': 'bound-name-does-not-win-over-built-in' if m[1] != 'none' else 'built-in-alias-broken',
                                        **info, 'bound_in': m[1], 'expected': want, 'got': res.get('res')})
            continue
        if 'model' not in res:
            if tag == 'seed':
                chk.oracle_fail.append({'class': 'hand-seed-does-not-parse', **info, 'got': res.get('parse')})
            continue
        g = ref_globals(cases[i]['globals'])
        ref = refinterp.Ref(g, cases[i]['max'], 'jump')
        try:
            exp = {}
            try:
                exp['res'] = ref.exec_jump(res['model'], None)
            except refinterp.RtError as exc:
                exp['rt'] = str(exc)
        except (refinterp.Unsupported, RecursionError, OverflowError):
            skipped += 1
            continue
        ok = res['log'] == ref.log
        if 'rt' in exp:
            ok = ok and res.get('rt') == exp['rt']
        else:
            ok = ok and 'res' in res and interp.same_value(exp['res'], interp.plain_of_tree(res['res']))
        got_g = {k: interp.plain_of_tree(v) for k, v in res['globals']}
        exp_g = {k: v for k, v in g.items() if not (isinstance(v, refinterp.LibFn) and v.name == k)}
        gl_ok = got_g.keys() == exp_g.keys() and all(interp.same_value(exp_g[k], got_g[k]) for k in exp_g)
        if not (ok and gl_ok):
            chk.oracle_fail.append({'class': 'scoping-or-calling-convention-differs' if ok is False else 'final-globals-differ', **info,
                                    'expected': {'res': repr(exp.get('res'))[:200], 'rt': exp.get('rt'), 'log': ref.log[:40],
                                                 'globals': {k: repr(v)[:60] for k, v in exp_g.items()}},
                                    'got': {k: res.get(k) for k in ('res', 'rt', 'log', 'globals')}})
        nontrivial.add(src)

    corr_n = declined = 0
    if model_ok:
        inc_idx = [i for i, m in enumerate(meta) if isinstance(m, tuple) and m[0] == 'include-in-function' and 'model' in impl[i] and 'host' not in impl[i]]
        idx = [i for i, m in enumerate(meta) if m in ('seed', 'program') and 'model' in impl[i] and 'host' not in impl[i]]
        budget = 350 if tier == 'quick' else 3000
        if len(idx) > budget:
            idx = idx[:8] + sorted(r.sample(idx[8:], budget - 8))
        idx = inc_idx + idx
        terms, used = [], []
        for i in idx:
            try:
                t = interp.run_term(cases[i], impl[i], impl[i]['model'], fuel=8000, files=cases[i].get('files'))
            except (interp.Unencodable, ValueError):
                continue
            if len(t) > 60000:
                continue            # a program that doubles a string at every level of a recursion: its values are too large to write as a Coq literal
            terms.append(t)
            used.append(i)
        codes, errors = core.coq_codes('c04', interp.IMPORTS, terms, shard=40)
        corr_n = len(used)
        for k, log in errors:
            chk.corr_fail.append({'class': 'case-file-did-not-evaluate', 'shard': k, 'log': log[-800:]})
        declined = sum(1 for c in codes if c == 2)
        for j, c in enumerate(codes):
            if c in (0, 3) and len(chk.corr_fail) < 12:
                i = used[j]
                chk.corr_fail.append({'class': 'model-differs' if c == 0 else 'model-out-of-fuel', 'source': cases[i]['text'],
                                      'host_globals': cases[i]['globals'], 'impl': {k: impl[i].get(k) for k in ('res', 'rt', 'log', 'globals')}})

    chk.coverage = {
        'evaluations': len(cases),
        'distinct_nontrivial': len(nontrivial),
        'rule': '+ round 7: a name bound to NULL in locals / globals still hides the built-in (Undefined function); an include statement inside a function body runs in the global scope (direct expectation and Coq model); programs: 1-4 functions (0-3 parameters drawn from a pool of names that are ALSO globals, host globals, library functions and built-in aliases; optional '
                '"..." parameter) called with 0-5 arguments directly, through a variable, through systemPartial and as arraySort callbacks (fixed-arity and variadic '
                'comparators); host configurations bind 0-5 of those names to numbers, strings, null, arrays or host functions; hand seeds for each clause; '
                'expression-mode shadowing of built-in aliases by locals / globals; non-trivial = distinct program texts compared with the reference',
        'distribution': dist, 'reference_skipped': skipped, 'programs_over_the_time_limit_left_out': timeouts, 'correspondence_cases': corr_n, 'model_declined': declined,
        'samples': [{'source': cases[i].get('text') or cases[i].get('expr_text'), 'host_globals': cases[i].get('globals'),
                     'impl': {k: impl[i].get(k) for k in ('res', 'rt', 'log')}} for i in (0, 1, 40) if i < len(cases)],
    }
    return chk.finish(TRUSTED)
