"""C20 - diffLines from the shipped include library reconstructs both inputs; every shipped include is clean.

proof        : coq/Props/C20.v  (Model/Diff.v = hand transliteration of diff.bare's diffLines as lowered by the parser;
               reconstruction / totality / identical-inputs theorems for ALL line lists; the REGENERATED line-split regex is
               the LF/CRLF split for ALL strings; the MODEL parser accepts every REGENERATED include text)
direct oracle: diffLines executed by the implementation through parse_script + execute_script with `include <diff.bare>`
               resolved by the CLI fetcher (bare._fetch_include, systemPrefix) on: all pairs of line lists of length <= 4
               (quick) / <= 6 (thorough) over {a,b,c}, random edit-script pairs up to 40 lines, texts with LF / CRLF / mixed
               endings, arrays of multi-line chunks, odd characters; harness/impl_workers/c20_oracle.py evaluates the
               property (reconstruct both sides, non-empty well-formed blocks, identical lines => no Add/Remove).
               Every include/*.bare: parse_script, validate_script, lint_script == [], served unchanged by the CLI fetcher.
correspondence: Model/Diff.v diff_inputs = implementation result on the same inputs (inside Coq, vm_compute);
               Model/Script.v parse_script = implementation parse_script on the include texts.
"""
import glob
import hashlib
import json
import os

from . import core, scriptgen
from .core import cstr, clist
from .impl_workers import c20_oracle

PID = 'C20'
TRUSTED = [
    'Coq 8.16.1 kernel + coqc; vm_compute for the finite include-text obligations and for running the model (no native_compute)',
    'Print Assumptions of every C20 theorem: Closed under the global context (no axioms)',
    'tools/translate_includes.py: copies the text of every include/*.bare, the diffRegexLineSplit pattern of diff.bare (parsed by '
    "CPython's own re._parser) and bare.py's _FETCH_INCLUDE_PREFIX into coq/Gen",
    'Model/Diff.v: hand transliteration of diffLines (validated against the script executed by the implementation by the '
    'correspondence: exhaustive small pairs, random pairs, text inputs); the theorems are about this model',
    'Model/Regex.v matcher and Model/Script.v parser model (shared; validated by their own correspondence and here on the include texts)',
    'harness/impl_workers/c20_oracle.py: the reference reading of the property (LF/CRLF line split by str.replace/split, list concatenation)',
]
ALPHABET = 'abc'


# ------------------------------------------------------------------ generators
def corpus_cases():
    cases = [
        (['a', 'b', 'c'], ['a', 'x', 'c']),                # F6 replay (Identical blocks were dropped)
        ([], []), ([], ['a']), (['a'], []), (['a'], ['a']), (['a'], ['b']),
        (['a', 'a'], ['a']), (['a'], ['a', 'a']), (['a', 'b', 'b', 'c'], ['a', 'b', 'c']),
        (['a', 'b', 'c'], ['a', 'b', 'b', 'c']), (['x', 'a', 'y', 'a'], ['a', 'a']),
        (['a', 'b', 'a', 'b'], ['b', 'a', 'b', 'a']),
        ('', ''), ('a', 'a'), ('a\n', 'a'), ('a\r\nb\r\n', 'a\nb\n'), ('a\r\nb\r\nb\r\nc\r\n', 'a\r\nb\r\nc\r\n'),
        ('intro\n\n\nbody\n', 'intro\n\nbody\n'), (['a\r\nb', 'c'], ['a', 'b\r\nc']), ('a\rb\n', 'a\rb\r\n'),
        ('\n', '\r\n'), ('\r', '\n'), ('a\n\rb', 'a\r\n\rb'), (['', ''], '\n'), ('a\nb', ['a', 'b']),
    ]
    d = os.path.join(core.VERIF, 'corpus', PID)
    for path in sorted(glob.glob(os.path.join(d, '*.json'))):
        with open(path, encoding='utf-8') as fh:
            for c in json.load(fh):
                cases.append((c['left'], c['right']))
    return cases


VOCAB = ['a', 'b', 'c', '', 'x', 'the quick', 'fox', '  indent', '}', '{', 'end', 'a ', 'A']


def random_pair(r, maxlen=40):
    """an edit script applied to a base list: the pairs a diff is meant for (common runs, repeats, moved blocks)"""
    n = r.choice([0, 1, 2, 3, 5, 8, 13, 21, 30, 40])
    n = min(n, maxlen)
    k = r.choice([2, 3, 3, 5, len(VOCAB)])
    base = [r.choice(VOCAB[:k]) for _ in range(n)]
    right = []
    i = 0
    while i < len(base):
        c = r.random()
        if c < 0.62:
            right.append(base[i])
            i += 1
        elif c < 0.72:
            i += r.randint(1, 3)                      # delete
        elif c < 0.82:
            right += [r.choice(VOCAB[:k]) for _ in range(r.randint(1, 3))]   # insert
        elif c < 0.90:
            right.append(r.choice(VOCAB[:k]))         # replace
            i += 1
        elif c < 0.95:
            right.append(base[i])                     # duplicate
            right.append(base[i])
            i += 1
        else:
            j = r.randint(i, min(len(base), i + 4))   # move a block to the end of what was emitted
            right = base[i:j] + right
            i = j
    right = right[:maxlen]
    if r.random() < 0.08:
        right = list(base)
    if r.random() < 0.5:
        return base, right
    return right, base


def ending(r, mode):
    if mode == 'lf':
        return '\n'
    if mode == 'crlf':
        return '\r\n'
    return r.choice(['\n', '\r\n'])


def to_text(r, lines, mode, final):
    """join lines into a text whose LF/CRLF line list is exactly `lines` (+ [''] when a final line end is added)"""
    out = []
    for i, ln in enumerate(lines):
        if i:
            out.append(ending(r, mode))
        out.append(ln)
    if final:
        out.append(ending(r, mode))
    return ''.join(out)


def text_case(r):
    left, right = random_pair(r, 12)
    left = left or ['']
    right = right or ['']
    c = r.random()
    modes = ['lf', 'crlf', 'mixed']
    if c < 0.25:
        # the same lines, different endings -> identical-lines clause
        lines = left
        return to_text(r, lines, r.choice(modes), False), to_text(r, lines, r.choice(modes), False)
    if c < 0.35:
        lines = left
        return to_text(r, lines, r.choice(modes), False), list(lines)        # text against its own line array
    a = to_text(r, left, r.choice(modes), r.random() < 0.4)
    b = to_text(r, right, r.choice(modes), r.random() < 0.4)
    if c < 0.55:
        # arrays of multi-line chunks
        def chunks(lines):
            res = []
            i = 0
            while i < len(lines):
                j = min(len(lines), i + r.randint(1, 3))
                res.append(to_text(r, lines[i:j], r.choice(modes), False))
                i = j
            return res
        return chunks(left), (chunks(right) if r.random() < 0.6 else b)
    return a, b


ODD = ['\r', '\x0b', '\x0c', '\x85', '\u2028', '\u2029', '\x1c', '\t', '\xa0', '\xe9', '\U0001f600', '\\', "'", '"', '\x00', 'a', 'b',
       '\n', '\r\n', '\n', '\r\n']


def odd_case(r):
    """characters that other notions of "line" treat as breaks (str.splitlines) or that stress the regex: lone CR, VT, FF,
    NEL, LS, PS, NUL, astral; CR directly before CRLF"""
    def txt():
        return ''.join(r.choice(ODD) for _ in range(r.randint(0, 10)))
    c = r.random()
    if c < 0.5:
        return txt(), txt()
    if c < 0.75:
        t = txt()
        return t, t.replace('\r\n', '\n')
    return [txt() for _ in range(r.randint(0, 3))], [txt() for _ in range(r.randint(0, 3))]


# ------------------------------------------------------------------ model side
def input_coq(x):
    if isinstance(x, str):
        return f'(InText {cstr(x)})'
    return f'(InParts {clist([cstr(p) for p in x])})'


KCTOR = {'Identical': 'Identical', 'Add': 'Add', 'Remove': 'Remove'}


def result_coq(res):
    d = res.get('ok') if isinstance(res, dict) else None
    if not isinstance(d, list):
        return None
    items = []
    for b in d:
        if not (isinstance(b, dict) and b.get('type') in KCTOR and isinstance(b.get('lines'), list)
                and all(isinstance(x, str) for x in b['lines']) and sorted(b.keys()) == ['lines', 'type']):
            return None
        items.append(f'(mk {KCTOR[b["type"]]} {clist([cstr(x) for x in b["lines"]])})')
    return f'(DOk {clist(items)})'


# ------------------------------------------------------------------ the check
def run(tier):
    chk = core.Check(PID, tier)
    chk.assumptions = ['line arrays hold strings and text inputs are strings (the property\'s domain); other value types are out of scope',
                       'CPython re semantics as modelled in Model/Regex.v for the line-split pattern',
                       'schema validation and lint of the includes are evaluated on the implementation only (no Gallina model of them here)']
    proof_ok = chk.prove('Props/C20.v')
    model_ok = proof_ok or chk.model_ready(['Model/Diff.vo', 'Model/Includes.vo'])

    r = core.rng('c20')
    cases = []   # (left, right, tag)
    for left, right in corpus_cases():
        cases.append((left, right, 'corpus'))
    small = c20_oracle.lists_upto(list(ALPHABET), 3)
    for a in small:
        for b in small:
            cases.append((a, b, 'small3'))                     # explicit: these all go to the correspondence as well
    n_rand = 1500 if tier == 'quick' else 20000
    for _ in range(n_rand):
        a, b = random_pair(r)
        cases.append((a, b, 'random'))
    n_text = 1200 if tier == 'quick' else 15000
    for _ in range(n_text):
        a, b = text_case(r)
        cases.append((a, b, 'text'))
    n_odd = 600 if tier == 'quick' else 8000
    for _ in range(n_odd):
        a, b = odd_case(r)
        cases.append((a, b, 'odd'))

    # long inputs (well beyond any size the small families reach): identical line arrays, the same text with LF against CRLF, one changed line
    for n in (2001, 2500) if tier == 'quick' else (2000, 2001, 2500, 4097):
        lines = [f'line {i % 97} {i}' for i in range(n)]
        cases.append((lines, list(lines), 'long'))
        cases.append(('\n'.join(lines), '\r\n'.join(lines), 'long'))
        changed = list(lines)
        changed[n // 2] = 'changed'
        cases.append((lines, changed, 'long'))

    maxlen = 4 if tier == 'quick' else 6
    nsh = core.NPROC
    payload = [{'left': a, 'right': b} for a, b, _ in cases]
    exh_payload = [{'exhaustive': {'alphabet': ALPHABET, 'maxlen': maxlen, 'shard': k, 'of': nsh}} for k in range(nsh)]
    impl = core.run_impl('diff_lines', payload, shards=min(core.NPROC, max(1, len(payload) // 300)), timeout=1500)
    exh = core.run_impl('diff_lines', exh_payload, shards=nsh, timeout=3000)
    inc = core.run_impl('diff_lines', [{'includes': True}], shards=1)[0]
    # the shipped consumer: unittestDeepEqual renders the Remove/Add blocks between Identical blocks as hunks
    cons_pairs = [[a, b] for a, b, tag in cases if tag in ('corpus', 'text', 'odd') and isinstance(a, str) and isinstance(b, str)]
    cons_pairs = cons_pairs[:300 if tier == 'quick' else 6000]
    cons_batches = [cons_pairs[i:i + 100] for i in range(0, len(cons_pairs), 100)]
    cons = core.run_impl('diff_lines', [{'consumer': b} for b in cons_batches], shards=min(core.NPROC, max(1, len(cons_batches))))

    # ---- direct oracle: explicit cases
    dist = {}
    nontrivial = set()
    shapes = {}
    for (a, b, tag), res in zip(cases, impl):
        dist[tag] = dist.get(tag, 0) + 1
        bad = c20_oracle.check(a, b, res)
        if bad is not None:
            chk.oracle_fail.append({'class': bad[0], 'input': {'left': a, 'right': b}, 'family': tag, 'detail': bad[1], 'got': res,
                                    'source': f'include <diff.bare> ; diffLines({json.dumps(a)}, {json.dumps(b)})'})
            continue
        key = ''.join(x['type'][0] for x in res['ok'])
        shapes[key] = shapes.get(key, 0) + 1
        if len(res['ok']) >= 3:
            nontrivial.add(json.dumps([a, b]))
    # ---- direct oracle: exhaustive family (evaluated in the workers by the same c20_oracle.check)
    exh_count = exh_fail = exh_nontrivial = 0
    exh_digest = hashlib.sha256()
    exh_shapes = {}
    for k, part in enumerate(exh):
        if not isinstance(part, dict) or 'count' not in part:
            chk.oracle_fail.append({'class': 'exhaustive-shard-failed', 'input': exh_payload[k], 'got': part})
            continue
        exh_count += part['count']
        exh_fail += part['nfail']
        exh_nontrivial += part['nontrivial']
        exh_digest.update(part['digest'].encode())
        for s, n in part['shapes'].items():
            exh_shapes[s] = exh_shapes.get(s, 0) + n
        for f in part['fails']:
            chk.oracle_fail.append({'class': f['class'], 'input': {'left': f['left'], 'right': f['right']}, 'family': f'exhaustive<={maxlen}',
                                    'detail': f['detail'], 'got': f['got'],
                                    'source': f'include <diff.bare> ; diffLines({json.dumps(f["left"])}, {json.dumps(f["right"])})'})
    nlists = len(c20_oracle.lists_upto(list(ALPHABET), maxlen))
    if exh_count != nlists * nlists and not any(c.get('class') == 'exhaustive-shard-failed' for c in chk.oracle_fail):
        chk.oracle_fail.append({'class': 'exhaustive-family-incomplete', 'expected': nlists * nlists, 'got': exh_count})

    # ---- direct oracle: the consumer of diffLines in unittest.bare
    n_cons_fail_entries = 0
    for batch, res in zip(cons_batches, cons):
        if isinstance(res, dict) and isinstance(res.get('failures'), list):
            n_cons_fail_entries += len(res['failures'])
        for cls, detail in c20_oracle.check_consumer(batch, res)[:3]:
            chk.oracle_fail.append({'class': cls, 'input': detail if isinstance(detail, dict) and 'left' in detail else {'batch_size': len(batch)},
                                    'detail': detail, 'source': 'include <unittest.bare> ; unittestDeepEqual(left, right)'})

    # ---- direct oracle: the shipped includes
    inc_rows = inc.get('includes') if isinstance(inc, dict) else None
    inc_summary = []
    if not inc_rows:
        chk.oracle_fail.append({'class': 'includes-not-enumerated', 'got': inc})
        inc_rows = []
    on_disk = sorted(os.path.basename(p) for p in glob.glob(os.path.join(core.REPO, 'src', 'bare_script', 'include', '*.bare')))
    if inc_rows and sorted(x['name'] for x in inc_rows) != on_disk:
        chk.oracle_fail.append({'class': 'include-set-differs', 'package': sorted(x['name'] for x in inc_rows), 'tree': on_disk})
    for row in inc_rows:
        name = row['name']
        with open(os.path.join(core.REPO, 'src', 'bare_script', 'include', name), 'rb') as fh:
            sha = hashlib.sha256(fh.read()).hexdigest()
        problems = []
        if not row.get('parsed'):
            problems.append('does not parse: ' + str(row.get('error')))
        else:
            if row.get('valid') is not True:
                problems.append('schema validation fails: ' + str(row.get('valid_error')))
            if row.get('lint') != []:
                problems.append('lint not clean: ' + str(row.get('lint', row.get('lint_error'))))
            if row.get('fetch_same') is not True:
                problems.append('the CLI fetcher does not serve this text for `include <%s>`' % name)
            if row.get('sha256') != sha:
                problems.append('text served by the package differs from the file the translator embedded')
        inc_summary.append({'name': name, 'statements': row.get('statements'), 'sha256': sha[:16], 'clean': not problems})
        if problems:
            chk.oracle_fail.append({'class': 'shipped-include-not-clean', 'input': {'include': name}, 'detail': problems,
                                    'source': f'include <{name}>'})

    # ---- correspondence: Model/Diff.v vs the implementation, inside Coq
    corr_n = 0
    if model_ok:
        budget = {'corpus': 10**9, 'small3': 10**9, 'random': 500, 'text': 700, 'odd': 400}
        if tier == 'thorough':
            budget = {k: v * 6 for k, v in budget.items()}
        by_tag = {}
        for i, c in enumerate(cases):
            by_tag.setdefault(c[2], []).append(i)
        pick = []
        for tag, idxs in by_tag.items():
            if tag == 'long':
                continue            # thousands of lines: the implementation and the direct oracle only (too large for a Coq literal run)
            if len(idxs) > budget.get(tag, 300):
                idxs = sorted(r.sample(idxs, budget.get(tag, 300)))
            pick += idxs
        terms = []
        for i in pick:
            enc = result_coq(impl[i])
            a, b, _ = cases[i]
            if enc is None:
                terms.append('false')
            else:
                terms.append(f'dres_eqb blocks_eqb (diff_inputs {input_coq(a)} {input_coq(b)}) {enc}')
        bad, errors = core.coq_bools('c20', 'Model.Base Model.Diff', terms, shard=200)
        corr_n = len(pick)
        for k, log in errors:
            chk.corr_fail.append({'class': 'case-file-did-not-evaluate', 'shard': k, 'log': log[-800:]})
        for bi in bad[:12]:
            i = pick[bi]
            a, b, tag = cases[i]
            shown = core.coq_show('c20', 'Model.Base Model.Diff', f'diff_inputs {input_coq(a)} {input_coq(b)}')
            chk.corr_fail.append({'class': 'model-differs', 'family': tag, 'input': {'left': a, 'right': b}, 'impl': impl[i], 'model': shown[-1500:]})
        if len(bad) > 12:
            chk.corr_fail.append({'class': 'model-differs', 'more': len(bad) - 12})

        # the model parser on the include texts = the implementation's parser (quick: the two small ones; thorough: all)
        names = [x['name'] for x in inc_rows if x.get('parsed')]
        if tier == 'quick':
            names = [n for n in names if n in ('diff.bare', 'forms.bare')]
        texts = []
        for n in names:
            with open(os.path.join(core.REPO, 'src', 'bare_script', 'include', n), encoding='utf-8') as fh:
                texts.append(fh.read())
        if names:
            pres = core.run_impl('parse_script', [{'text': t} for t in texts], shards=1)
            pterms = []
            for n, res in zip(names, pres):
                ident = 'inc_' + ''.join(ch if ch.isalnum() or ch == '_' else '_' for ch in n[:-5])
                pterms.append(f'sres_eqb script_eqb (parse_script [{ident}] 1) {scriptgen.parse_result_coq(res)}')
            pbad, perrors = core.coq_bools('c20inc', 'Model.Base Model.Num Model.ExprParser Model.Script Gen.Includes', pterms, shard=1)
            corr_n += len(pterms)
            for k, log in perrors:
                chk.corr_fail.append({'class': 'include-parse-case-did-not-evaluate', 'include': names[k], 'log': log[-800:]})
            for bi in pbad:
                chk.corr_fail.append({'class': 'model-parser-differs-on-include', 'include': names[bi]})

    samples = [{'left': cases[i][0], 'right': cases[i][1], 'impl': impl[i]} for i in (0, 30, 700, len(cases) - 2500, len(cases) - 900, len(cases) - 1)
               if 0 <= i < len(cases)]
    chk.coverage = {
        'evaluations': len(cases) + exh_count + len(inc_rows) + len(cons_pairs),
        'distinct_nontrivial': len(nontrivial) + exh_nontrivial,
        'rule': 'diffLines through parse_script/execute_script with include <diff.bare> served by the CLI fetcher; exhaustive pairs of '
                f'line lists of length <= {maxlen} over {{a,b,c}} ({nlists}^2), all pairs <= 3 again explicitly (for the model), random '
                'edit-script pairs up to 40 lines, LF/CRLF/mixed texts (same lines with different endings, text vs line array, arrays of '
                'multi-line chunks), odd-character texts; every shipped include parsed/validated/linted; non-trivial = a correct result '
                'with >= 3 blocks',
        'exhaustive': True,
        'exhaustive_part': f'all {nlists * nlists} pairs of line lists of length <= {maxlen} over a 3-letter alphabet',
        'exhaustive_failures': exh_fail,
        'exhaustive_digest': exh_digest.hexdigest(),
        'distribution': dist, 'block_shapes_explicit_top': dict(sorted(shapes.items(), key=lambda kv: -kv[1])[:25]),
        'block_shapes_exhaustive_top': dict(sorted(exh_shapes.items(), key=lambda kv: -kv[1])[:25]),
        'includes': inc_summary, 'consumer_pairs': len(cons_pairs), 'consumer_failure_entries': n_cons_fail_entries,
        'correspondence_cases': corr_n,
        'samples': samples,
    }
    return chk.finish(TRUSTED)


def replay(data):
    """re-run the failing inputs of a replay file on the implementation and print the oracle's verdict"""
    items = [f['input'] for f in data.get('failing_inputs', []) if isinstance(f.get('input'), dict) and 'left' in f['input']]
    if not items:
        print(json.dumps(data, indent=1)[:4000])
        return 0
    res = core.run_impl('diff_lines', items, shards=1)
    rc = 0
    for it, out in zip(items, res):
        bad = c20_oracle.check(it['left'], it['right'], out)
        print(json.dumps({'input': it, 'got': out, 'verdict': bad[0] if bad else 'holds'}))
        rc = rc or (1 if bad else 0)
    return rc
