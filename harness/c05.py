"""C05 - runtime errors are contained: only documented exceptions escape.

proof         : coq/Props/C05.v (no host exception ever comes out of eval / exec, for EVERY library behaviour; operators never raise;
                a failed call is null / the documented failure value, logged in debug mode, and evaluation continues)
direct oracle : on the implementation, the exception class escaping execute_script / evaluate_expression must be none,
                BareScriptRuntimeError or BareScriptParserError, and results must be BareScript values, over
                (1) every operator x an adversarial operand pool (0 divisors, huge exponents, negative bases with fractional exponents,
                    arbitrary-precision integers, huge-int with float, non-finite floats, every other type);
                (2) EVERY name of SCRIPT_FUNCTIONS x random argument lists of 0-5 values of every type (wrong-typed, missing, surplus);
                (3) host functions that raise ZeroDivisionError / KeyError / TypeError / ValueError: the call is null, execution continues,
                    debug mode logs one line naming the function; a host function raising BareScriptRuntimeError propagates;
                (4) evaluate_expression without an options object and with options lacking logFn/globals;
                (5) generated structured programs run on adversarial globals.
correspondence: the Coq evaluator against the implementation on (1) (Python's arithmetic incl. big ints is modelled in Model/Arith.v);
                and on the wider library of the interpreter model (harness/libcorr.py, notes/LIB.md): typed / ill-typed calls of the JSON,
                number-text, datetime and math functions and whole programs over them, run through check_run / check_eval.
"""
import itertools

from . import core, interp, libcorr, scriptgen

PID = 'C05'
OPS = ['**', '*', '/', '%', '+', '-', '<=', '<', '>=', '>', '==', '!=', '&&', '||']
TRUSTED = [
    'Coq 8.16.1 kernel + coqc; vm_compute to run the model (no native_compute)',
    'Print Assumptions of every C05 theorem: Closed under the global context; premise parser_contained (C06) is a visible hypothesis',
    'Model/Interp.v + Model/Arith.v: hand transliterations validated by the correspondence; the library is universally quantified in the theorems, '
    'so library functions that are not modelled are covered by the theorem on the model side and by the oracle on the code side',
    'harness oracle: exception classes observed at the public API',
]
ALLOWED = ('BareScriptRuntimeError', 'BareScriptParserError')


def adversarial(pool):
    return [
        ('null', ['null']), ('true', ['bool', True]), ('zero', interp.vflt(0.0)), ('negzero', interp.vflt(-0.0)), ('izero', interp.vint(0)),
        ('one', interp.vflt(1.0)), ('neg8', interp.vflt(-8.0)), ('half', interp.vflt(0.5)), ('neghalf', interp.vflt(-0.5)), ('ten', interp.vflt(10.0)),
        ('e1000', interp.vflt(1000.0)), ('e20', interp.vflt(1e20)), ('ne21', interp.vflt(-1e21)), ('i63', interp.vint(2 ** 63)), ('big', interp.vflt(1e308)), ('tiny', interp.vflt(5e-324)), ('inf', ['flt', 'inf']), ('ninf', ['flt', '-inf']), ('nan', ['flt', 'nan']),
        ('i3', interp.vint(3)), ('ineg', interp.vint(-7)), ('huge', interp.vint(10 ** 400)), ('hugeneg', interp.vint(-(10 ** 400))),
        ('digits', interp.vint(10 ** 5000)), ('s', ['str', 'ab']), ('empty', ['str', '']),
        ('d1', ['date', str(63_842_000_000_000_000)]), ('dmin', ['date', '0']), ('dmax', ['date', str(315_537_897_599_999_999)]),
        ('arr', pool.arr([interp.vflt(1)])), ('obj', pool.obj([['a', interp.vflt(1)]])), ('rx', ['regex']),
        # containers that contain themselves (arrayPush(a, a), objectSet(o, 'k', o)): comparing them recurses without end
        ('cyc', cyclic_arr(pool)), ('cyco', cyclic_obj(pool)),
        # host-supplied date values that are not naive datetimes: timezone-aware (two offsets) and a plain date
        ('dtaware', ['awaredate', '2024-03-10T12:00:00+05:30']), ('dtutc', ['awaredate', '2024-03-10T06:30:00+00:00']), ('donly', ['dateonly', '2024-03-10']),
    ]


def cyclic_arr(pool):
    a = pool.arr([interp.vflt(1)])
    a[2].append(['ref', a[1]])
    return a


def cyclic_obj(pool):
    o = pool.obj([['a', interp.vflt(1)]])
    o[2].append(['self', ['ref', o[1]]])
    return o


def nonterminating(op, na, nb):
    # int ** int with an astronomically large exponent does not terminate in CPython (observation F22, outside every quantifier)
    return op == '**' and nb in ('huge', 'digits') and na not in ('null', 'true', 's', 'empty', 'd1', 'dmin', 'dmax', 'arr', 'obj', 'rx')


def run(tier):
    chk = core.Check(PID, tier)
    chk.assumptions = ['CPython recursion limit / non-terminating big-int powers are outside the quantifier (DESIGN.md F14, F22)']
    proof_ok = chk.prove('Props/C05.v', extra_targets=['Model/Run.vo'])
    model_ok = proof_ok or chk.model_ready(['Model/Run.vo'])
    r = core.rng('c05')
    pool = interp.Pool()
    vals = adversarial(pool)
    gspec = dict(vals)

    cases, meta = [], []
    # (1) operators x adversarial operands, both entry points
    for op in OPS:
        for (na, _), (nb, _) in itertools.product(vals, repeat=2):
            if nonterminating(op, na, nb):
                continue
            cases.append({'expr_text': f'{na} {op} {nb}', 'globals': {na: gspec[na], nb: gspec[nb]}, 'builtins': True, 'timeout': 10})
            meta.append(('operator', f'{na} {op} {nb}'))
    for (na, _), (nb, _) in r.sample(list(itertools.product(vals, repeat=2)), 150):
        op = r.choice(OPS)
        if nonterminating(op, na, nb):
            continue
        cases.append({'text': f"x = '' + ({na} {op} {nb})\nsystemLog('after')\nreturn {na} {op} {nb}\n", 'globals': {na: gspec[na], nb: gspec[nb]},
                      'max': 1000, 'timeout': 10})
        meta.append(('operator-script', f'{na} {op} {nb}'))
    # the same operators in DEBUG mode with a log function (whatever the run reports there, the operation is still null and nothing escapes):
    # every pair for the operators with an exception path, a sample for the others; must equal the non-debug result
    for op in OPS:
        pairs = list(itertools.product(vals, repeat=2))
        if op not in ('/', '%', '**', '*', '==', '<'):
            pairs = r.sample(pairs, 60)
        for (na, _), (nb, _) in pairs:
            if nonterminating(op, na, nb):
                continue
            cases.append({'expr_text': f'{na} {op} {nb}', 'globals': {na: gspec[na], nb: gspec[nb]}, 'builtins': True, 'timeout': 10, 'debug': True})
            meta.append(('operator-debug', f'{na} {op} {nb}'))
    for na, _ in vals:
        cases.append({'expr_text': f'-{na}', 'globals': {na: gspec[na]}})
        meta.append(('operator', f'-{na}'))
    # (3) host functions that raise
    for kind in ('raise_zero', 'raise_key', 'raise_type', 'raise_value', 'raise_empty', 'raise_multiline', 'raise_assert', 'raise_nonascii'):
        for debug in (False, True):
            cases.append({'text': "a = hostFail(1, 2)\nsystemLog('after ' + a)\nb = 1 + hostFail()\nreturn arrayNew(a, b)\n",
                          'globals': {'hostFail': ['hostfn', kind]}, 'debug': debug, 'max': 100})
            meta.append(('hostfn', kind + ('-debug' if debug else '')))
    cases.append({'text': "a = hostFail(1)\nsystemLog('never')\n", 'globals': {'hostFail': ['hostfn', 'raise_runtime']}, 'max': 100})
    meta.append(('hostfn', 'raise_runtime'))
    # (4) no options object / bare options
    for text in ("sqrt('abc')", 'indexOf(5)', 'len(5)', 'abs()', 'max(1, 2) + len(null)', "fixed(1.5, 'x')", 'date(1, 2)', 'undefinedFn(1)', '1 / 0'):
        cases.append({'expr_text': text, 'no_options': True})
        meta.append(('no-options', text))
        cases.append({'expr_text': text, 'globals': {}, 'log': False})
        meta.append(('bare-options', text))
    # (6) includes in DEBUG mode (the included script is linted, outside any handler): unusual but legal function headers, lint findings
    inc_texts = ["function anyArgs(...):\n    return 1\nendfunction\nfunction bb(x...):\n    return x\nendfunction\nasync function cc():\nendfunction\nzz = anyArgs(1, 2)\n",
                 "function uu(a, a, b):\n    c = 1\n    jump nowhere\n    lbl:\n    lbl:\nendfunction\nunused = 5\n1 + 2\n",
                 "function ff(x):\n    return x\nendfunction\nfunction ff(x):\n    return x + 1\nendfunction\n",
                 "\n# only a comment\n", "jump away\n"]
    for t in inc_texts:
        for debug in (True, False):
            cases.append({'text': "include 'inc.bare'\nsystemLog('after include')\nreturn 1\n", 'files': {'inc.bare': t}, 'globals': {}, 'debug': debug, 'max': 200})
            meta.append(('include-debug' if debug else 'include', t))
    # (7) a failing library call is REPORTED in debug mode - also when its failure value is not null (arrayLength -> 0, indexOf -> -1 ...)
    for call, fv in (("arrayLength(5)", 0.0), ("stringLength(5)", 0.0), ("arrayIndexOf(5, 1)", -1.0), ("arrayLastIndexOf(5, 1)", -1.0),
                     ("stringIndexOf(5, 'a')", -1.0), ("stringLastIndexOf(5, 'a')", -1.0), ("objectHas(5, 'a')", False), ("objectGet(5, 'a', 7)", 7.0),
                     ("arrayGet(5, 0)", None), ("mathSqrt('x')", None),
                     # an index beyond every float (a host int of 400 digits) is an invalid argument like any other: the documented failure value
                     ("stringIndexOf('abc', 'b', hg)", -1.0), ("stringLastIndexOf('abc', 'b', hg)", -1.0), ("arrayIndexOf(arrayNew(1, 2), 2, hg)", -1.0),
                     ("arrayLastIndexOf(arrayNew(1, 2), 2, hg)", -1.0), ("arrayGet(arrayNew(1), hg)", None), ("stringCharCodeAt('abc', hg)", None)):
        cases.append({'text': f"x = {call}\nsystemLog('after')\nreturn x\n", 'globals': {'hg': interp.vint(10 ** 400)}, 'debug': True, 'max': 100})
        meta.append(('failure-report', (call, fv)))
    # (8) library functions that exhaust the host's recursion limit on containers that contain themselves: the call is null (reported in debug
    #     mode) and execution continues - it is not a script error
    cyc = "a = arrayNew(1)\narrayPush(a, a)\nb = arrayNew(1)\narrayPush(b, b)\no = objectNew()\nobjectSet(o, 'self', o)\np = objectNew()\nobjectSet(p, 'self', p)\n"
    for call in ('systemCompare(a, b)', 'mathMax(a, b)', 'mathMin(b, a)', 'arrayIndexOf(arrayNew(a), b)', 'arrayLastIndexOf(arrayNew(a), b)',
                 'arraySort(arrayNew(a, b))', 'systemCompare(o, p)', 'jsonStringify(a)', 'jsonStringify(o)', 'systemIs(a, b)'):
        for debug in (False, True):
            cases.append({'text': cyc + f"x = {call}\nsystemLog('after')\nreturn systemType(x)\n", 'globals': {}, 'debug': debug, 'max': 200})
            meta.append(('library-recursion', (call, debug)))
    # (5) generated programs on adversarial globals
    n_prog = 120 if tier == 'quick' else 1500
    for _ in range(n_prog):
        prog = scriptgen.gen_program(r, max_depth=3)
        g = {'g0': r.choice(vals)[1], 'g1': r.choice(vals)[1], 'g2': r.choice(vals)[1], 'depth': interp.vflt(0)}
        cases.append({'text': scriptgen.program_text(prog), 'globals': g, 'max': 400})
        meta.append(('program', None))
    impl = core.run_impl('run_script', cases)
    # (2) every library function x random arguments: its own worker (values are built there)
    lib = core.run_impl('lib_fuzz', [{'seed': core.seed() + k, 'n': (12 if tier == 'quick' else 150)} for k in range(16)], shards=16)

    dist, nontrivial = {}, set()
    plain_result = {what: impl[i] for i, (tag, what) in enumerate(meta) if tag == 'operator'}
    for i, ((tag, what), res) in enumerate(zip(meta, impl)):
        dist[tag] = dist.get(tag, 0) + 1
        src = cases[i].get('expr_text') or cases[i].get('text')
        if 'host' in res:
            chk.oracle_fail.append({'class': 'host-exception-escapes', 'source': src, 'entry': tag, 'exception': res['host'], 'message': res.get('host_msg')})
            continue
        if 'res' in res and 'unknown' in repr(res['res']):
            chk.oracle_fail.append({'class': 'result-is-not-a-BareScript-value', 'source': src, 'got': res['res']})
            continue
        if tag == 'hostfn':
            if what == 'raise_runtime':
                if res.get('rt') != 'host says no' or res['log']:
                    chk.oracle_fail.append({'class': 'host-runtime-error-not-propagated', 'source': src, 'got': res})
            else:
                want_log = ['after null']
                dbg = what.endswith('-debug')
                logs = res.get('log', [])
                ok = res.get('res') == ['arr', [['null'], ['null']]] and [ln for ln in logs if not ln.startswith('BareScript:')] == want_log
                if dbg:
                    ok = ok and sum(1 for ln in logs if ln.startswith('BareScript: Function "hostFail" failed with error')) == 2
                else:
                    ok = ok and logs == want_log
                if not ok:
                    chk.oracle_fail.append({'class': 'failed-call-not-null-or-not-reported', 'source': src, 'kind': what, 'got': res})
        if tag in ('include-debug', 'include'):
            if 'res' not in res and 'rt' not in res and 'parse' not in res:
                chk.oracle_fail.append({'class': 'include-run-gave-neither-a-value-nor-a-script-error', 'source': what, 'entry': tag, 'got': res})
        if tag == 'library-recursion':
            call, dbg = what
            plain = [ln for ln in res.get('log', []) if not ln.startswith('BareScript:')]
            if 'res' not in res or plain != ['after']:
                chk.oracle_fail.append({'class': 'library-call-on-cyclic-containers-is-not-null-or-stops-the-script', 'source': call, 'debug': dbg,
                                        'expected': {'log': ['after']}, 'got': {k: res.get(k) for k in ('res', 'rt', 'log')}})
        if tag == 'failure-report':
            call, fv = what
            fname = call.split('(')[0]
            got = interp.plain_of_tree(res['res']) if 'res' in res else 'no value'
            nrep = sum(1 for ln in res.get('log', []) if ln.startswith(f'BareScript: Function "{fname}" failed with error'))
            if not (got == fv and type(got) is type(fv)) or nrep != 1:
                chk.oracle_fail.append({'class': 'failed-call-not-reported-in-debug-mode-or-wrong-failure-value', 'source': call,
                                        'expected': {'value': fv, 'reports': 1}, 'got': {'value': res.get('res') or res.get('rt'), 'log': res.get('log')}})
        if tag in ('operator', 'operator-script'):
            nontrivial.add(what)
        if tag == 'operator-debug':
            plain = plain_result.get(what)
            if plain is not None and (res.get('res'), res.get('rt')) != (plain.get('res'), plain.get('rt')):
                chk.oracle_fail.append({'class': 'debug-mode-changes-the-value-of-an-operation', 'source': what, 'expected': plain.get('res') or plain.get('rt'),
                                        'got': res.get('res') or res.get('rt')})
    n_lib = 0
    lib_dist = {}
    for part in lib:
        n_lib += part['calls']
        for k, v in part['outcomes'].items():
            lib_dist[k] = lib_dist.get(k, 0) + v
        for bad in part['failures']:
            chk.oracle_fail.append({'class': 'host-exception-escapes', 'entry': 'library-function', **bad})
            nontrivial.add(bad.get('source', '')[:80])

    # ---- correspondence on the operator cases
    corr_n = declined = 0
    if model_ok:
        # (operands with thousands of digits are exercised on the implementation only: Z arithmetic on them is too slow inside Coq)
        idx = [i for i, (tag, what) in enumerate(meta) if tag == 'operator' and 'host' not in impl[i] and 'digits' not in what]
        parsed = core.run_impl('parse_expr', [cases[i]['expr_text'] for i in idx])
        budget = 2500 if tier == 'quick' else len(idx)
        pairs = [(i, p['ok']) for i, p in zip(idx, parsed) if 'ok' in p]
        if len(pairs) > budget:
            pairs = [pairs[j] for j in sorted(r.sample(range(len(pairs)), budget))]
        terms, used = [], []
        for i, canon in pairs:
            try:
                terms.append(interp.eval_term(cases[i], impl[i], canon, fuel=200))
                used.append(i)
            except interp.Unencodable:
                pass
        codes, errors = core.coq_codes('c05', interp.IMPORTS, terms, shard=120)
        corr_n = len(used)
        for k, log in errors:
            chk.corr_fail.append({'class': 'case-file-did-not-evaluate', 'shard': k, 'log': log[-800:]})
        declined = sum(1 for c in codes if c == 2)
        for j, c in enumerate(codes):
            if c in (0, 3) and len(chk.corr_fail) < 15:
                i = used[j]
                chk.corr_fail.append({'class': 'model-differs' if c == 0 else 'model-out-of-fuel', 'source': cases[i]['expr_text'],
                                      'impl': {k: impl[i].get(k) for k in ('res', 'rt', 'log')}})

    # ---- correspondence THROUGH THE INTERPRETER MODEL on the wider library (harness/libcorr.py; notes/LIB.md):
    #      typed / ill-typed calls of every function lifted into libfull, alias calls in expression mode, whole programs
    lib_model = libcorr.run_family(chk, tier, core.rng('c05-libcorr')) if model_ok else {}

    chk.coverage = {
        'evaluations': len(cases) + n_lib + lib_model.get('cases', 0),
        'distinct_nontrivial': len(nontrivial),
        'rule': '+ round 7: every operator pair again in DEBUG mode (same value, nothing escapes) and host functions failing without a message / with a multi-line message / by assert; operators: 14 binary x every ordered pair of a %d-value adversarial pool + unary minus, through evaluate_expression and (sampled) execute_script; '
                'library: every SCRIPT_FUNCTIONS name x random argument lists (0-5 values of every type incl. huge ints, non-finite floats, cyclic containers); '
                'host functions raising four exception kinds (debug on/off) and BareScriptRuntimeError; evaluate_expression without options; generated programs on '
                'adversarial globals; non-trivial = distinct operator expressions' % len(vals),
        'exhaustive': True, 'exhaustive_part': f'operator x adversarial-operand matrix ({len(OPS)} x {len(vals)}^2 minus non-terminating big-int powers)',
        'distribution': dist, 'library_calls': n_lib, 'library_outcomes': lib_dist,
        'correspondence_cases': corr_n, 'model_declined': declined,
        'library_model_correspondence': {
            'rule': 'scripts / expressions calling the JSON, number-text, datetime, math, arrayJoin, stringLower/Upper, systemIs functions and '
                    'stringNew/systemLog of containers and datetimes (coq/Model/LibMore.v) on typed and ill-typed arguments, plus whole programs; '
                    'implementation (TZ=UTC) vs Model/Run.v check_run / check_eval over libfull; declined = the model answered LOracle '
                    '(payload it does not reproduce: transcendental functions, radix != 10, non-ASCII case mapping, float texts beyond 15 digits, '
                    'failing calls in debug mode, ...), never counted as agreement',
            **lib_model},
        'samples': [{'source': cases[i].get('expr_text') or cases[i].get('text'), 'impl': {k: impl[i].get(k) for k in ('res', 'rt', 'host')}}
                    for i in (5, 3000, len(cases) - 1) if i < len(cases)],
    }
    return chk.finish(TRUSTED)
