"""refinterp.py - an INDEPENDENT reference semantics of BareScript, written from the language description (not from
runtime.py): expression evaluation, a structured big-step interpreter for source-level programs (C01, C04) and a
cache-free jump-level interpreter for statement lists (C08, C09).  Used as the direct oracle of the interpreter checks.

Values: None, bool, float/int (one number type), str, datetime, list, dict, RefFn (script function), LibFn (library function).
"""
import datetime
import math


class RtError(Exception):
    """the reference's BareScriptRuntimeError"""


class Unsupported(Exception):
    """the reference does not define this case (the oracle skips it)"""


class _Return(Exception):
    def __init__(self, value):
        super().__init__()
        self.value = value


class _Break(Exception):
    pass


class _Continue(Exception):
    pass


class RefFn:
    def __init__(self, name, args, last, body, kind):
        self.name, self.args, self.last, self.body, self.kind = name, args, last, body, kind   # kind: 'struct' | 'jump'


class LibFn:
    def __init__(self, name):
        self.name = name


class PartialFn:
    def __init__(self, fn, args):
        self.fn, self.args = fn, args


TYPE_ORDER = None


def is_num(v):
    return isinstance(v, (int, float)) and not isinstance(v, bool)


def type_name(v):
    if v is None:
        return 'null'
    if isinstance(v, str):
        return 'string'
    if isinstance(v, bool):
        return 'boolean'
    if is_num(v):
        return 'number'
    if isinstance(v, datetime.date):
        return 'datetime'
    if isinstance(v, dict):
        return 'object'
    if isinstance(v, list):
        return 'array'
    if isinstance(v, (RefFn, LibFn, PartialFn)) or callable(v):
        return 'function'
    return 'regex'


def truthy(v):
    if v is None:
        return False
    if isinstance(v, str):
        return v != ''
    if isinstance(v, bool):
        return v
    if is_num(v):
        return v != 0
    if isinstance(v, list):
        return len(v) != 0
    return True


def sgn(a, b):
    return -1 if a < b else (0 if a == b else 1)


def compare(a, b):
    """the total order of values: null first; same-type by value (arrays/objects element-wise); otherwise by type name"""
    if a is None or b is None:
        return 0 if (a is None and b is None) else (-1 if a is None else 1)
    ta, tb = type_name(a), type_name(b)
    if ta != tb:
        return sgn(ta, tb)
    if ta == 'string':
        return sgn([ord(c) for c in a], [ord(c) for c in b])
    if ta in ('boolean', 'number'):
        if isinstance(a, float) and math.isnan(a) or isinstance(b, float) and math.isnan(b):
            raise Unsupported('nan')
        return sgn(a, b)
    if ta == 'datetime':
        return sgn(a, b)
    if ta == 'array':
        for x, y in zip(a, b):
            c = compare(x, y)
            if c:
                return c
        return sgn(len(a), len(b))
    if ta == 'object':
        ia = sorted(a.items(), key=lambda kv: [ord(c) for c in kv[0]])
        ib = sorted(b.items(), key=lambda kv: [ord(c) for c in kv[0]])
        for (k1, v1), (k2, v2) in zip(ia, ib):
            c = compare(k1, k2)
            if c:
                return c
            c = compare(v1, v2)
            if c:
                return c
        return sgn(len(ia), len(ib))
    return 0


def num_text(x):
    if isinstance(x, int):
        return str(x)
    if math.isnan(x) or math.isinf(x):
        raise Unsupported('non-finite number text')
    s = repr(x)
    if s.endswith('.0'):
        s = s[:-2]
    return s


def json_text(v, seen=()):
    if v is None:
        return 'null'
    if isinstance(v, bool):
        return 'true' if v else 'false'
    if is_num(v):
        return num_text(v)
    if isinstance(v, str):
        out = ['"']
        for ch in v:
            o = ord(ch)
            if ch == '"':
                out.append('\\"')
            elif ch == '\\':
                out.append('\\\\')
            elif ch == '\n':
                out.append('\\n')
            elif ch == '\r':
                out.append('\\r')
            elif ch == '\t':
                out.append('\\t')
            elif ch == '\b':
                out.append('\\b')
            elif ch == '\f':
                out.append('\\f')
            elif o < 0x20 or o > 0x7e:
                if o >= 0x10000:
                    o -= 0x10000
                    out.append('\\u%04x\\u%04x' % (0xd800 + (o >> 10), 0xdc00 + (o & 0x3ff)))
                else:
                    out.append('\\u%04x' % o)
            else:
                out.append(ch)
        out.append('"')
        return ''.join(out)
    if isinstance(v, list):
        if id(v) in seen:
            raise Unsupported('cycle')
        return '[' + ','.join(json_text(x, seen + (id(v),)) for x in v) + ']'
    if isinstance(v, dict):
        if id(v) in seen:
            raise Unsupported('cycle')
        keys = sorted(v, key=lambda s: [ord(c) for c in s])
        return '{' + ','.join(json_text(k) + ':' + json_text(v[k], seen + (id(v),)) for k in keys) + '}'
    raise Unsupported('json of ' + type_name(v))


def to_text(v):
    if v is None:
        return 'null'
    if isinstance(v, str):
        return v
    if isinstance(v, bool):
        return 'true' if v else 'false'
    if is_num(v):
        return num_text(v)
    if isinstance(v, (list, dict)):
        return json_text(v)
    if type_name(v) == 'function':
        return '<function>'
    if type_name(v) == 'regex':
        return '<regex>'
    raise Unsupported('text of ' + type_name(v))


class Ref:
    """one run of the reference"""

    def __init__(self, globals_, max_statements=0, funcs_kind='struct', log_enabled=True):
        self.g = globals_
        self.log = []
        self.count = 0
        self.max = max_statements
        self.kind = funcs_kind
        self.log_enabled = log_enabled
        self.depth = 0
        self.files = {}           # url -> canonical statement list (None / missing: cannot be fetched)
        self.fetched = []
        self.resolve = lambda base, url: url      # how an include path is resolved against the including file (C17 supplies one)

    # ---------------------------------------------------------------- budget
    def tick(self):
        self.count += 1
        if self.max > 0 and self.count > self.max:
            raise RtError(f'Exceeded maximum script statements ({self.max:g})' if isinstance(self.max, float) else
                          f'Exceeded maximum script statements ({self.max})')

    # ---------------------------------------------------------------- expressions (canonical trees of the parser worker)
    def lookup(self, name, loc):
        if name == 'null':
            return None
        if name == 'true':
            return True
        if name == 'false':
            return False
        if loc is not None and name in loc:
            return loc[name]
        return self.g.get(name)

    def ev(self, e, loc):
        k = e[0]
        if k == 'num':
            return float.fromhex(e[1])
        if k == 'int':
            return int(e[1])
        if k == 'str':
            return e[1]
        if k == 'var':
            return self.lookup(e[1], loc)
        if k == 'group':
            return self.ev(e[1], loc)
        if k == 'un':
            v = self.ev(e[2], loc)
            if e[1] == '!':
                return not truthy(v)
            return -v if is_num(v) else None
        if k == 'bin':
            op = e[1]
            a = self.ev(e[2], loc)
            if op == '&&':
                return self.ev(e[3], loc) if truthy(a) else a
            if op == '||':
                return a if truthy(a) else self.ev(e[3], loc)
            b = self.ev(e[3], loc)
            return self.binop(op, a, b)
        if k == 'call':
            return self.call_expr(e[1], e[2], loc)
        raise Unsupported(k)

    def binop(self, op, a, b):
        if op in ('==', '!=', '<', '<=', '>', '>='):
            c = compare(a, b)
            return {'==': c == 0, '!=': c != 0, '<': c < 0, '<=': c <= 0, '>': c > 0, '>=': c >= 0}[op]
        if op == '+':
            if is_num(a) and is_num(b):
                return self.arith(op, a, b)
            if isinstance(a, str) and isinstance(b, str):
                return a + b
            if isinstance(a, str):
                return a + to_text(b)
            if isinstance(b, str):
                return to_text(a) + b
            if isinstance(a, datetime.datetime) and is_num(b) or isinstance(b, datetime.datetime) and is_num(a):
                d, n = (a, b) if isinstance(a, datetime.datetime) else (b, a)
                if isinstance(n, float) and (math.isnan(n) or math.isinf(n)):
                    return None
                try:
                    return d + datetime.timedelta(milliseconds=n)     # a datetime offset by n milliseconds
                except (OverflowError, ValueError):
                    return None
            return None
        if op == '-' and isinstance(a, datetime.datetime) and isinstance(b, datetime.datetime):
            us = (a - b) // datetime.timedelta(microseconds=1)
            ms = us / 1000
            return float(math.floor(ms + 0.5) if ms >= 0 else math.ceil(ms - 0.5))    # the difference in milliseconds
        if is_num(a) and is_num(b):
            return self.arith(op, a, b)
        return None

    @staticmethod
    def arith(op, a, b):
        try:
            if op == '+':
                r = a + b
            elif op == '-':
                r = a - b
            elif op == '*':
                r = a * b
                if isinstance(r, int) and abs(r) > 2 ** 53:        # integer arithmetic continues in floats beyond 2^53
                    r = float(a) * float(b)
            elif op == '/':
                r = a / b
            elif op == '%':
                r = a % b
            elif op == '**':
                if isinstance(a, int) and isinstance(b, int) and b > 0 and abs(a).bit_length() * b > 53:
                    a = float(a)                                   # a power that may need more than 53 bits is a float power
                r = a ** b
            else:
                raise Unsupported(op)
        except (ArithmeticError, ValueError):
            return None            # the operation has no number as its result
        if isinstance(r, complex):
            return None
        return r

    def call_expr(self, name, args, loc):
        if name == 'if':
            c = self.ev(args[0], loc) if len(args) >= 1 else False
            pick = (args[1] if len(args) >= 2 else None) if truthy(c) else (args[2] if len(args) >= 3 else None)
            return self.ev(pick, loc) if pick is not None else None
        vals = [self.ev(a, loc) for a in args]
        if loc is not None and name in loc:
            fn = loc[name]
        elif name in self.g:
            fn = self.g[name]
        else:
            fn = None
        if fn is None:
            raise RtError(f'Undefined function "{name}"')
        return self.call_value(fn, vals)

    def call_value(self, fn, vals):
        if isinstance(fn, RefFn):
            return self.call_script(fn, vals)
        if isinstance(fn, LibFn):
            return self.lib(fn.name, vals)
        if isinstance(fn, PartialFn):
            return self.call_value(fn.fn, list(fn.args) + list(vals))
        if callable(fn):
            return fn(vals)         # a host function of the test (python callable taking the argument list)
        return None                 # calling a non-function evaluates to null

    def call_script(self, fn, vals):
        loc = {}
        names = fn.args or []
        for i, nm in enumerate(names):
            if fn.last and i == len(names) - 1:
                loc[nm] = list(vals[i:])
            else:
                loc[nm] = vals[i] if i < len(vals) else None
        self.depth += 1
        if self.depth > 60:
            raise Unsupported('call depth')
        try:
            if fn.kind == 'jump':
                return self.exec_jump(fn.body, loc)
            try:
                self.exec_block(fn.body, loc, False)
            except _Return as r:
                return r.value
            return None
        finally:
            self.depth -= 1

    # ---------------------------------------------------------------- the few library functions the generated programs use
    def lib(self, name, a):
        n = len(a)
        if name == 'systemLog':
            if n > 1:
                return None
            if self.log_enabled:
                self.log.append(to_text(a[0] if n else None))
            return None
        if name == 'arrayNew':
            return list(a)
        if name == 'arrayLength':
            return len(a[0]) if n == 1 and isinstance(a[0], list) else 0
        if name == 'arrayPush':
            if n >= 1 and isinstance(a[0], list):
                a[0].extend(a[1:])
                return a[0]
            return None
        if name == 'arrayGet':
            if n == 2 and isinstance(a[0], list) and is_num(a[1]) and a[1] == math.floor(a[1]) and 0 <= a[1] < len(a[0]):
                return a[0][int(a[1])]
            if n == 2 and is_num(a[1]) and (math.isinf(a[1]) or math.isnan(a[1])):
                return None
            return None
        if name == 'arraySet':
            if n == 3 and isinstance(a[0], list) and is_num(a[1]) and not math.isinf(a[1]) and not math.isnan(a[1]) \
               and a[1] == math.floor(a[1]) and 0 <= a[1] < len(a[0]):
                a[0][int(a[1])] = a[2]
                return a[2]
            return None
        if name == 'objectNew':
            o = {}
            for i in range(0, n, 2):
                if not isinstance(a[i], str):
                    return None
                o[a[i]] = a[i + 1] if i + 1 < n else None
            return o
        if name == 'objectGet':
            d = a[2] if n >= 3 else None
            if n in (2, 3) and isinstance(a[0], dict) and isinstance(a[1], str):
                return a[0].get(a[1], d)
            return d
        if name == 'objectSet':
            if n == 3 and isinstance(a[0], dict) and isinstance(a[1], str):
                a[0][a[1]] = a[2]
                return a[2]
            return None
        if name == 'stringLength':
            return len(a[0]) if n == 1 and isinstance(a[0], str) else 0
        if name == 'systemGlobalGet':
            if 1 <= n <= 2 and isinstance(a[0], str):
                return self.g.get(a[0], a[1] if n == 2 else None)
            return None
        if name == 'systemGlobalSet':
            if 1 <= n <= 2 and isinstance(a[0], str):
                self.g[a[0]] = a[1] if n == 2 else None
                return self.g[a[0]]
            return None
        if name == 'systemBoolean':
            return truthy(a[0] if n else None) if n <= 1 else None
        if name == 'systemType':
            return type_name(a[0] if n else None) if n <= 1 else None
        if name == 'systemCompare':
            return compare(a[0] if n else None, a[1] if n > 1 else None) if n <= 2 else None
        if name == 'systemPartial':
            if n >= 2 and type_name(a[0]) == 'function':
                return PartialFn(a[0], a[1:])
            return None
        if name == 'arraySort':
            if n in (1, 2) and isinstance(a[0], list) and (n == 1 or a[1] is None or type_name(a[1]) == 'function'):
                import functools
                if n == 1 or a[1] is None:
                    a[0].sort(key=functools.cmp_to_key(compare))
                else:
                    def cmpf(x, y):
                        r = self.call_value(a[1], [x, y])
                        if not is_num(r):
                            raise Unsupported('compare function result is not a number')
                        return r
                    a[0].sort(key=functools.cmp_to_key(cmpf))      # the host's sort: same comparison sequence as the implementation's
                return a[0]
            return None
        if name in ('mathMax', 'mathMin'):
            best = None
            for i, v in enumerate(a):
                if i == 0 or (compare(v, best) > 0 if name == 'mathMax' else compare(v, best) < 0):
                    best = v
            return best
        raise Unsupported('library function ' + name)

    # ---------------------------------------------------------------- jump-level statement lists (canonical statements)
    def exec_jump(self, stmts, loc, base=None):
        pc = 0
        while pc < len(stmts):
            s = stmts[pc]
            self.tick()
            k = s[0]
            if k == 'expr':
                v = self.ev(s[2], loc)
                if s[1] is not None:
                    if loc is not None:
                        loc[s[1]] = v
                    else:
                        self.g[s[1]] = v
            elif k == 'jump':
                if s[2] is None or truthy(self.ev(s[2], loc)):
                    target = next((i for i, t in enumerate(stmts) if t[0] == 'label' and t[1] == s[1]), None)
                    if target is None:
                        raise RtError(f'Unknown jump label "{s[1]}"')
                    pc = target
            elif k == 'return':
                return self.ev(s[1], loc) if s[1] is not None else None
            elif k == 'label':
                pass
            elif k == 'function':
                self.g[s[1]] = RefFn(s[1], s[2], s[4], s[5], 'jump')
            elif k == 'include':
                for url, system in s[1]:
                    if system:
                        raise Unsupported('system include')
                    loc_url = self.resolve(base, url)
                    self.fetched.append(loc_url)
                    model = self.files.get(loc_url)
                    if model is None:
                        raise RtError(f'Include of "{loc_url}" failed')
                    if isinstance(model, dict):
                        raise Unsupported('include of a text that does not parse')
                    self.exec_jump(model, None, loc_url)       # global scope; its `return` ends only the included script
            else:
                raise Unsupported(k)
            pc += 1
        return None

    # ---------------------------------------------------------------- structured programs (scriptgen's statement trees; expressions pre-parsed)
    def exec_block(self, stmts, loc, in_loop):
        for s in stmts:
            self.exec_stmt(s, loc, in_loop)

    def assign(self, name, v, loc):
        if loc is not None:
            loc[name] = v
        else:
            self.g[name] = v

    def exec_stmt(self, s, loc, in_loop):
        self.steps = getattr(self, 'steps', 0) + 1
        if self.steps > 40000:
            raise Unsupported('the reference run is too long (possibly non-terminating)')
        k = s[0]
        if k == 'assign':
            self.assign(s[1], self.ev(s[2], loc), loc)
        elif k == 'expr':
            self.ev(s[1], loc)
        elif k == 'return':
            raise _Return(self.ev(s[1], loc) if s[1] is not None else None)
        elif k == 'break':
            raise _Break()
        elif k == 'continue':
            raise _Continue()
        elif k == 'if':
            for cond, body in s[1]:
                if truthy(self.ev(cond, loc)):
                    self.exec_block(body, loc, in_loop)
                    return
            if s[2] is not None:
                self.exec_block(s[2], loc, in_loop)
        elif k == 'while':
            while truthy(self.ev(s[1], loc)):
                try:
                    self.exec_block(s[2], loc, True)
                except _Break:
                    break
                except _Continue:
                    continue
        elif k == 'for':
            arr = self.ev(s[3], loc)
            items = arr if isinstance(arr, list) else []
            n = len(items)                        # the length is taken once
            i = 0
            while i < n:
                if s[2]:
                    self.assign(s[2], i, loc)
                self.assign(s[1], items[i] if i < len(items) else None, loc)
                try:
                    self.exec_block(s[4], loc, True)
                except _Break:
                    break
                except _Continue:
                    pass
                i += 1
                if s[2]:
                    # (not pinned by the language description: after an iteration the index variable already holds the
                    #  next index, so it equals the length once the loop has run to completion)
                    self.assign(s[2], i, loc)
        elif k == 'function':
            self.g[s[1]] = RefFn(s[1], s[2], s[3], s[4], 'struct')
        else:
            raise Unsupported(k)

    def run_struct(self, prog):
        try:
            self.exec_block(prog, None, False)
        except _Return as r:
            return r.value
        return None
