"""C06 - the parser is total and its diagnostics point at the offending source.

proof         : coq/Props/C06.v  (Model/Script.v + Model/ExprParser.v over the REGENERATED regexes, Model/PErr.v over the
                REGENERATED elision constants; accounting, position, shift, totality (partial), caret)
direct oracle : harness/c06_oracle.py - independent of the Coq model: expected (error, line number, line text, column)
                known by construction for faults planted at every column of lines 0..400 of every statement kind, open
                blocks / dangling continuations, whole-line errors, statement accounting, independent caret reference on
                every error, metamorphic prepend-k-lines shift, totality on token soup / fuzz / mutated programs
correspondence: model parse_script = implementation parse_script (statement list or error 4-tuple) and
                model format_perr = str(exc), evaluated inside Coq (vm_compute) on a sample of every family
"""
from . import core, c06_oracle
from .core import cstr, cnat, copt
from .scriptgen import parse_result_coq, chunks_coq

PID = 'C06'
TRUSTED = [
    'Coq 8.16.1 kernel + coqc; vm_compute for finite obligations on regenerated constants and for running the model',
    'Print Assumptions of every C06 theorem: Closed under the global context (no axioms)',
    'tools/translate.py + tools/translate_perr.py: every re.compile pattern of parser.py (parsed by CPython\'s re._parser) and the '
    'constants line_length_max / line_suffix / line_prefix of BareScriptParserError.__init__ are copied into coq/Gen on every run',
    'Model/Regex.v: hand-written backtracking matcher assumed to implement CPython re semantics (validated by the correspondence); '
    'Proofs/RegexFacts.v proves it sound w.r.t. a declarative match relation',
    'Model/Script.v, Model/ExprParser.v, Model/PErr.v: hand transliterations of parse_script / parse_expression / '
    'BareScriptParserError.__init__ (validated by the correspondence on every run)',
    'harness/c06_oracle.py: the independent references (logical lines, block simulator over line roles, caret reference)',
]

IMPORTS = 'Model.Base Model.Num Model.ExprParser Model.Script Model.PErr'


def payload_chunks(p):
    return p['chunks'] if 'chunks' in p else [p['text']]


def corr_term(payload, res):
    """boolean Gallina term: the model agrees with the implementation on this input"""
    chunks = chunks_coq(payload_chunks(payload))
    start = cnat(payload.get('start', 1))
    t = f'sres_eqb script_eqb (parse_script {chunks} {start}) {parse_result_coq(res)}'
    if 'err' in res:
        msg, line, col, lineno, text = res['err']
        ln = copt(cnat(lineno) if lineno is not None else None)
        e = f'{{| e_msg := {cstr(msg)}; e_line := {cstr(line)}; e_col := {cnat(col)}; e_lineno := {ln} |}}'
        t = f'andb ({t}) (str_eqb (format_perr {e}) {cstr(text)})'
    return t


def result_representable(res):
    """results the Coq encoding can express (column/line number are naturals)"""
    if 'err' in res:
        _, _, col, lineno, _ = res['err']
        return isinstance(col, int) and col >= 0 and (lineno is None or (isinstance(lineno, int) and lineno >= 0))
    return 'ok' in res or 'host' in res


def run(tier):
    chk = core.Check(PID, tier)
    chk.assumptions = ['CPython re semantics as modelled in Model/Regex.v; float(str) as modelled in Model/Num.v',
                       'recursion limit of the host interpreter is not modelled (nesting <= 50, lines <= 400 characters)',
                       'texts are sequences of Unicode code points; \\s \\w \\d classes are the tables dumped from the running interpreter']
    proof_ok = chk.prove('Props/C06.v')
    model_ok = proof_ok or chk.model_ready(['Model/Script.vo', 'Model/PErr.vo'])

    r = core.rng('c06')
    cases = c06_oracle.build_cases(r, tier)
    payloads = [c['payload'] for c in cases]
    impl = core.run_impl('parse_script', payloads)

    # ---- 1. direct oracle
    fails, stats = c06_oracle.evaluate(cases, impl)
    chk.oracle_fail += fails

    # ---- 2. correspondence (a sample of every family + every case the oracle flagged)
    corr_n = 0
    if model_ok:
        per_tag = 45 if tier == 'quick' else 250
        by_tag = {}
        for i, c in enumerate(cases):
            by_tag.setdefault(c['tag'], []).append(i)
        pick = []
        for tag in sorted(by_tag):
            idxs = by_tag[tag]
            # long inputs are slow inside Coq: prefer the short ones but keep some long lines (elision branches)
            small = [i for i in idxs if sum(len(x) for x in payload_chunks(payloads[i])) <= 700]
            big = [i for i in idxs if i not in set(small)]
            k = min(len(small), per_tag)
            pick += sorted(r.sample(small, k))
            pick += sorted(r.sample(big, min(len(big), max(4, per_tag // 12))))
        flagged = []
        for f in fails[:40]:
            for i, c in enumerate(cases):
                if c06_oracle.payload_source(c['payload']) == f.get('source') and c['payload'].get('start') == f.get('start'):
                    flagged.append(i)
                    break
        pick = sorted(set(pick + flagged))
        r.shuffle(pick)            # spread the long inputs over the shards
        pick = [i for i in pick if result_representable(impl[i])]
        terms = [corr_term(payloads[i], impl[i]) for i in pick]
        bad, errors = core.coq_bools('c06', IMPORTS, terms, shard=60, timeout=1500)
        corr_n = len(pick)
        for k, log in errors:
            chk.corr_fail.append({'class': 'case-file-did-not-evaluate', 'shard': k, 'log': log[-800:]})
        for b in bad[:12]:
            i = pick[b]
            p = payloads[i]
            shown = core.coq_show('c06', IMPORTS, f'parse_script {chunks_coq(payload_chunks(p))} {cnat(p.get("start", 1))}')
            chk.corr_fail.append({'class': 'model-differs', 'tag': cases[i]['tag'], 'payload': p, 'impl': impl[i], 'model': shown[-1500:]})
        if len(bad) > 12:
            chk.corr_fail.append({'class': 'model-differs', 'more': len(bad) - 12})

    n_err = sum(1 for x in impl if 'err' in x)
    samples = [{'payload': payloads[i], 'impl': impl[i]} for i in (0, len(cases) // 3, len(cases) // 2, len(cases) - 1) if i < len(cases)]
    for smp in samples:
        if 'ok' in smp['impl'] and len(str(smp['impl'])) > 600:
            smp['impl'] = {'ok': f'<{len(smp["impl"]["ok"])} statements>'}
    chk.coverage = {
        'evaluations': len(cases),
        'distinct_nontrivial': n_err,
        'rule': 'see harness/c06_oracle.py: faults planted at every (sampled in quick) column of lines of length 0..400 of every '
                'expression-bearing statement kind, single-line and continued, in programs and alone; open blocks with single-line and '
                'continued headers; dangling continuations; whole-line errors; nesting <= 50; token soup, fuzz and one-token mutants of '
                'valid programs; start in {1, 7, 1000}; str and chunk-list inputs; shift siblings (1..5 comment/blank/simple lines in front); '
                'non-trivial = inputs rejected with BareScriptParserError',
        'exhaustive': tier == 'thorough',
        'exhaustive_part': 'every column of every listed length per statement kind (thorough); sampled columns (quick)',
        'distribution': stats.get('by_tag'), 'oracle_stats': {k: v for k, v in stats.items() if k != 'by_tag'},
        'correspondence_cases': corr_n,
        'samples': samples,
    }
    return chk.finish(TRUSTED)


def replay(data):
    """re-run the failing inputs of a replay file on the implementation and print what it does now"""
    import json
    items = data.get('failing_inputs') or []
    payloads = []
    for it in items:
        if 'chunks' in it:
            payloads.append({'chunks': it['chunks'], 'start': it.get('start', 1)})
        elif 'source' in it:
            payloads.append({'text': it['source'], 'start': it.get('start', 1)})
    res = core.run_impl('parse_script', payloads, shards=1) if payloads else []
    for it, p, x in zip(items, payloads, res):
        print(json.dumps({'class': it.get('class'), 'payload': p, 'expected': it.get('expected'), 'now': x})[:2000])
    if not payloads:
        print(json.dumps(data, indent=1)[:4000])
    return 0
